#!/bin/bash
# Sensitivity suite: apply each patch of sensitivity/patches (and seeded/*/patch.diff) to a scratch
# worktree of /repo under /tmp, run the repository's own tests on it (they must still pass), run
# the quick check against it, and compare with the expectation encoded in the name:
#   S*  (property-breaking)  -> the check must exit 1 with a VIOLATION line
#   N*  (property-preserving)-> the check must exit 0
#   H*  (breaks something C06 does not speak about in a way that stops the exploration, e.g. a
#        fault-free solve that never returns) -> the check must exit 2 within its watchdog limits,
#        not hang and not report a C06 violation; the repository's own tests are not run on these
# Nothing is ever applied to /repo; the scratch worktree and its build output are removed at the end.
# usage: sensitivity/run.sh [patch files...]      (default: all)
set -u
ORIG_PWD="$PWD"
HERE="$(cd "$(dirname "$0")/.." && pwd)"
SCR="${SCRATCH:-/tmp/ivpsim-sens-$$}"
OUT="$SCR-out"
mkdir -p "$OUT"
git -C /repo worktree add -q --detach "$SCR" HEAD || exit 2
trap 'git -C /repo worktree remove --force "$SCR" 2>/dev/null; rm -rf "$SCR" "$OUT"' EXIT
if [ $# -eq 0 ]; then
    set -- "$HERE"/sensitivity/patches/*.diff "$HERE"/seeded/*/patch.diff
fi
fail=0
for p in "$@"; do
    p="$(cd "$ORIG_PWD" && realpath "$p")"
    [ -f "$p" ] || continue
    name="$(basename "$p" .diff)"
    [ "$name" = "patch" ] && name="seeded-$(basename "$(dirname "$p")")"
    git -C "$SCR" checkout -q -- . && git -C "$SCR" clean -qfd -e .ivpsim-target -e .ivpsim-target-dbg -e target
    if ! git -C "$SCR" apply "$p"; then echo "$name: PATCH DOES NOT APPLY"; fail=1; continue; fi
    tests="skipped"
    case "$name" in H*) skiptests=1 ;; *) skiptests=0 ;; esac
    if [ "${SENS_TESTS:-1}" = "1" ] && [ $skiptests = 0 ]; then
        if (cd "$SCR" && CARGO_NET_OFFLINE=true cargo test --workspace --no-fail-fast --offline) >"$OUT/$name.tests" 2>&1; then
            tests="pass"
        else
            tests="FAIL"
        fi
    fi
    VERIF_REPO="$SCR" VERIF_EVIDENCE_DIR="$OUT/ev" VERIF_REPLAY_DIR="$OUT/replays-$name" "$HERE/check" C06 "${SENS_TIER:-quick}" >"$OUT/$name.log" 2>&1
    rc=$?
    case "$name" in
        N*) want=0 ;;
        H*) want=2 ;;
        *) want=1 ;;
    esac
    # seeded changes that are not detected by decision carry the expected exit code in their meta
    meta="$(dirname "$p")/meta.json"
    if [ -f "$meta" ] && grep -q '"expected_exit"' "$meta"; then
        want="$(grep -o '"expected_exit": *[0-9]*' "$meta" | grep -o '[0-9]*$')"
    fi
    classes="$(grep -o 'violation class=[a-z-]*' "$OUT/$name.log" | sort | uniq -c | tr '\n' ' ')"
    if [ "$rc" = "$want" ]; then verdict="ok"; else verdict="UNEXPECTED"; fail=1; fi
    echo "$name: exit=$rc want=$want [$verdict] repo-tests=$tests $classes"
    if [ "$verdict" = "UNEXPECTED" ]; then tail -5 "$OUT/$name.log" | sed 's/^/    /'; fi
done
exit $fail
