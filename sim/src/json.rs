//! Minimal JSON value, writer and parser (no dependency). Floats are written with Rust's
//! shortest round-trip representation, so a replay file reproduces every f64 bit for bit.

use std::fmt::Write;

#[derive(Clone, Debug, PartialEq)]
pub enum J {
    Null,
    Bool(bool),
    U(u64),
    I(i64),
    F(f64),
    S(String),
    A(Vec<J>),
    O(Vec<(String, J)>),
}

impl J {
    pub fn obj(kv: Vec<(&str, J)>) -> J {
        J::O(kv.into_iter().map(|(k, v)| (k.to_string(), v)).collect())
    }
    pub fn s(x: &str) -> J {
        J::S(x.to_string())
    }
    pub fn get(&self, k: &str) -> Option<&J> {
        match self {
            J::O(kv) => kv.iter().find(|(kk, _)| kk == k).map(|(_, v)| v),
            _ => None,
        }
    }
    pub fn as_u64(&self) -> Option<u64> {
        match self {
            J::U(u) => Some(*u),
            J::I(i) if *i >= 0 => Some(*i as u64),
            J::F(f) if *f >= 0.0 && f.fract() == 0.0 && *f < 1.8e19 => Some(*f as u64),
            _ => None,
        }
    }
    pub fn as_f64(&self) -> Option<f64> {
        match self {
            J::U(u) => Some(*u as f64),
            J::I(i) => Some(*i as f64),
            J::F(f) => Some(*f),
            _ => None,
        }
    }
    pub fn as_str(&self) -> Option<&str> {
        match self {
            J::S(s) => Some(s),
            _ => None,
        }
    }
    pub fn as_bool(&self) -> Option<bool> {
        match self {
            J::Bool(b) => Some(*b),
            _ => None,
        }
    }
    pub fn as_arr(&self) -> Option<&[J]> {
        match self {
            J::A(a) => Some(a),
            _ => None,
        }
    }

    pub fn to_string_pretty(&self) -> String {
        let mut s = String::new();
        self.write(&mut s, 0, true);
        s.push('\n');
        s
    }
    pub fn to_string_compact(&self) -> String {
        let mut s = String::new();
        self.write(&mut s, 0, false);
        s
    }

    fn write(&self, out: &mut String, ind: usize, pretty: bool) {
        match self {
            J::Null => out.push_str("null"),
            J::Bool(b) => out.push_str(if *b { "true" } else { "false" }),
            J::U(u) => {
                let _ = write!(out, "{}", u);
            }
            J::I(i) => {
                let _ = write!(out, "{}", i);
            }
            J::F(f) => {
                if f.is_finite() {
                    // {:?} always keeps a '.' or an exponent, and round-trips exactly
                    let _ = write!(out, "{:?}", f);
                } else {
                    out.push_str("null");
                }
            }
            J::S(s) => write_str(out, s),
            J::A(a) => {
                // arrays of scalars stay on one line
                let scalar = a.iter().all(|x| !matches!(x, J::A(_) | J::O(_)));
                if a.is_empty() {
                    out.push_str("[]");
                } else if !pretty || scalar {
                    out.push('[');
                    for (i, x) in a.iter().enumerate() {
                        if i > 0 {
                            out.push_str(if pretty { ", " } else { "," });
                        }
                        x.write(out, ind, false);
                    }
                    out.push(']');
                } else {
                    out.push_str("[\n");
                    for (i, x) in a.iter().enumerate() {
                        pad(out, ind + 1);
                        x.write(out, ind + 1, pretty);
                        if i + 1 < a.len() {
                            out.push(',');
                        }
                        out.push('\n');
                    }
                    pad(out, ind);
                    out.push(']');
                }
            }
            J::O(kv) => {
                if kv.is_empty() {
                    out.push_str("{}");
                } else if !pretty {
                    out.push('{');
                    for (i, (k, v)) in kv.iter().enumerate() {
                        if i > 0 {
                            out.push(',');
                        }
                        write_str(out, k);
                        out.push(':');
                        v.write(out, ind, false);
                    }
                    out.push('}');
                } else {
                    out.push_str("{\n");
                    for (i, (k, v)) in kv.iter().enumerate() {
                        pad(out, ind + 1);
                        write_str(out, k);
                        out.push_str(": ");
                        v.write(out, ind + 1, pretty);
                        if i + 1 < kv.len() {
                            out.push(',');
                        }
                        out.push('\n');
                    }
                    pad(out, ind);
                    out.push('}');
                }
            }
        }
    }
}

fn pad(out: &mut String, n: usize) {
    for _ in 0..n {
        out.push(' ');
    }
}

fn write_str(out: &mut String, s: &str) {
    out.push('"');
    for c in s.chars() {
        match c {
            '"' => out.push_str("\\\""),
            '\\' => out.push_str("\\\\"),
            '\n' => out.push_str("\\n"),
            '\r' => out.push_str("\\r"),
            '\t' => out.push_str("\\t"),
            c if (c as u32) < 0x20 => {
                let _ = write!(out, "\\u{:04x}", c as u32);
            }
            c => out.push(c),
        }
    }
    out.push('"');
}

pub fn parse(src: &str) -> Result<J, String> {
    let mut p = P { b: src.as_bytes(), i: 0 };
    p.ws();
    let v = p.value()?;
    p.ws();
    if p.i != p.b.len() {
        return Err(format!("trailing data at byte {}", p.i));
    }
    Ok(v)
}

struct P<'a> {
    b: &'a [u8],
    i: usize,
}

impl<'a> P<'a> {
    fn ws(&mut self) {
        while self.i < self.b.len() && matches!(self.b[self.i], b' ' | b'\n' | b'\r' | b'\t') {
            self.i += 1;
        }
    }
    fn eat(&mut self, c: u8) -> Result<(), String> {
        if self.i < self.b.len() && self.b[self.i] == c {
            self.i += 1;
            Ok(())
        } else {
            Err(format!("expected '{}' at byte {}", c as char, self.i))
        }
    }
    fn lit(&mut self, s: &str, v: J) -> Result<J, String> {
        if self.b[self.i..].starts_with(s.as_bytes()) {
            self.i += s.len();
            Ok(v)
        } else {
            Err(format!("bad literal at byte {}", self.i))
        }
    }
    fn value(&mut self) -> Result<J, String> {
        if self.i >= self.b.len() {
            return Err("unexpected end".into());
        }
        match self.b[self.i] {
            b'n' => self.lit("null", J::Null),
            b't' => self.lit("true", J::Bool(true)),
            b'f' => self.lit("false", J::Bool(false)),
            b'"' => Ok(J::S(self.string()?)),
            b'[' => {
                self.i += 1;
                let mut a = Vec::new();
                self.ws();
                if self.i < self.b.len() && self.b[self.i] == b']' {
                    self.i += 1;
                    return Ok(J::A(a));
                }
                loop {
                    self.ws();
                    a.push(self.value()?);
                    self.ws();
                    if self.i < self.b.len() && self.b[self.i] == b',' {
                        self.i += 1;
                    } else {
                        self.eat(b']')?;
                        return Ok(J::A(a));
                    }
                }
            }
            b'{' => {
                self.i += 1;
                let mut kv = Vec::new();
                self.ws();
                if self.i < self.b.len() && self.b[self.i] == b'}' {
                    self.i += 1;
                    return Ok(J::O(kv));
                }
                loop {
                    self.ws();
                    let k = self.string()?;
                    self.ws();
                    self.eat(b':')?;
                    self.ws();
                    let v = self.value()?;
                    kv.push((k, v));
                    self.ws();
                    if self.i < self.b.len() && self.b[self.i] == b',' {
                        self.i += 1;
                    } else {
                        self.eat(b'}')?;
                        return Ok(J::O(kv));
                    }
                }
            }
            _ => self.number(),
        }
    }
    fn string(&mut self) -> Result<String, String> {
        self.eat(b'"')?;
        let mut out: Vec<u8> = Vec::new();
        while self.i < self.b.len() {
            let c = self.b[self.i];
            self.i += 1;
            match c {
                b'"' => return String::from_utf8(out).map_err(|e| e.to_string()),
                b'\\' => {
                    let e = *self.b.get(self.i).ok_or("bad escape")?;
                    self.i += 1;
                    match e {
                        b'"' => out.push(b'"'),
                        b'\\' => out.push(b'\\'),
                        b'/' => out.push(b'/'),
                        b'n' => out.push(b'\n'),
                        b'r' => out.push(b'\r'),
                        b't' => out.push(b'\t'),
                        b'b' => out.push(8),
                        b'f' => out.push(12),
                        b'u' => {
                            if self.i + 4 > self.b.len() {
                                return Err("truncated \\u escape".into());
                            }
                            let h = std::str::from_utf8(&self.b[self.i..self.i + 4])
                                .map_err(|e| e.to_string())?;
                            let cp = u32::from_str_radix(h, 16).map_err(|e| e.to_string())?;
                            self.i += 4;
                            let ch = char::from_u32(cp).unwrap_or('?');
                            let mut buf = [0u8; 4];
                            out.extend_from_slice(ch.encode_utf8(&mut buf).as_bytes());
                        }
                        _ => return Err("bad escape".into()),
                    }
                }
                c => out.push(c),
            }
        }
        Err("unterminated string".into())
    }
    fn number(&mut self) -> Result<J, String> {
        let st = self.i;
        while self.i < self.b.len()
            && matches!(self.b[self.i], b'0'..=b'9' | b'-' | b'+' | b'.' | b'e' | b'E')
        {
            self.i += 1;
        }
        let s = std::str::from_utf8(&self.b[st..self.i]).map_err(|e| e.to_string())?;
        if s.is_empty() {
            return Err(format!("unexpected byte at {}", st));
        }
        if !s.contains(['.', 'e', 'E']) {
            if let Ok(u) = s.parse::<u64>() {
                return Ok(J::U(u));
            }
            if let Ok(i) = s.parse::<i64>() {
                return Ok(J::I(i));
            }
        }
        s.parse::<f64>().map(J::F).map_err(|e| format!("bad number {:?}: {}", s, e))
    }
}
