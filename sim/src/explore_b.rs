//! Builder half of C06: bounded exhaustive enumeration of builder call chains against the
//! reference model (B1–B7). Builders are consumed by every call and are not `Clone`, so each
//! chain is replayed from the constructor; the enumeration is a tree cut at the first rejected
//! call, with `solve()` tried after every accepted prefix.

use crate::inst::{dispatch, make_deriv, make_vec, AsCalled, DerivBox, DtBounds, SimData, SolverBounds, StubHooks, Visitor};
use bacon_sci::ivp::IVPIterator;
use crate::model::{ErrClass, Expect, Model, Outcome};
use crate::run::{execute, Budget, ExecOpts};
use crate::spec::*;
use crate::stats::{FoundViolation, Stats};
use crate::stub::{initial_state, Scalar};
use bacon_sci::ivp::{IVPError, IVPSolver, UserError};
use bacon_sci::Dimension;
use nalgebra::{allocator::Allocator, DefaultAllocator};
use std::panic::{catch_unwind, AssertUnwindSafe};
use std::rc::Rc;

/// The setter alphabet: class representatives valid / zero / negative zero / negative, and
/// start / end values giving start < end, start = end and start > end in both call orders.
pub fn alphabet() -> Vec<BOp> {
    // the float right above 1.0: a valid value that differs from another valid value by one ulp
    let one_up = f64::from_bits(1.0f64.to_bits() + 1);
    vec![
        // tolerance: valid small, valid above 1, smallest normal, zero, negative zero, negative
        BOp::Tol(1e-3),
        BOp::Tol(2.0),
        BOp::Tol(f64::MIN_POSITIVE),
        BOp::Tol(0.0),
        BOp::Tol(-0.0),
        BOp::Tol(-1e-3),
        // maximum step: small, medium, longer than any interval below, far below machine
        // epsilon, 1.0 (one ulp below a minimum value), zero, negative zero, negative
        BOp::Max(0.05),
        BOp::Max(0.5),
        BOp::Max(4.0),
        BOp::Max(1e-17),
        BOp::Max(1.0),
        BOp::Max(0.0),
        BOp::Max(-0.0),
        BOp::Max(-0.5),
        // minimum step: small, above the small maximum, longer than any interval, a few 1e-17
        // (above the tiny maximum by less than machine epsilon), one ulp above 1.0, zero, -0, negative
        BOp::Min(1e-3),
        BOp::Min(0.2),
        BOp::Min(4.0),
        BOp::Min(5e-17),
        BOp::Min(one_up),
        BOp::Min(0.0),
        BOp::Min(-0.0),
        BOp::Min(-1e-3),
        // start / end: start < end (also by one ulp), start = end (also as -0.0 / +0.0 and for
        // a negative time), start > end, in both call orders
        BOp::Start(0.0),
        BOp::Start(-0.0),
        BOp::Start(1.0),
        BOp::Start(2.0),
        BOp::Start(-1000.0),
        BOp::End(0.0),
        // an interval far shorter than machine epsilon in absolute terms (with Start(0.0))
        BOp::End(1e-16),
        BOp::End(1.0),
        BOp::End(one_up),
        BOp::End(3.0),
        BOp::End(-1000.0),
        BOp::IcSlice,
        BOp::IcVec,
        BOp::Deriv,
    ]
}

/// Sub-alphabets enumerated to a greater depth: the two pairs of setters whose checks depend on
/// each other, so that "the same setter called n times" and long alternations are covered.
pub fn sub_alphabets(thorough: bool) -> Vec<(&'static str, Vec<BOp>, usize)> {
    let full = alphabet();
    let steps: Vec<BOp> = full.iter().copied().filter(|o| matches!(o, BOp::Max(_) | BOp::Min(_))).collect();
    let times: Vec<BOp> = full.iter().copied().filter(|o| matches!(o, BOp::Start(_) | BOp::End(_))).collect();
    let tol: Vec<BOp> = full.iter().copied().filter(|o| matches!(o, BOp::Tol(_))).collect();
    // magnitudes near the ends of the double range: valid values whose sums, differences,
    // squares or products overflow or underflow
    let magnitudes = vec![
        BOp::Tol(1e-300),
        BOp::Tol(1e300),
        BOp::Max(1e300),
        BOp::Max(1e-300),
        BOp::Max(0.5),
        BOp::Min(1e300),
        BOp::Min(1e-300),
        BOp::Min(1e-3),
        BOp::Start(-1e300),
        BOp::Start(1e300),
        BOp::Start(0.0),
        BOp::End(1e300),
        BOp::End(-1e300),
        BOp::End(1.0),
        BOp::End(5e-324),
    ];
    vec![
        ("step-bounds", steps, if thorough { 7 } else { 6 }),
        ("times", times, if thorough { 8 } else { 6 }),
        ("tolerance", tol, 6),
        ("extreme-magnitude", magnitudes, if thorough { 5 } else { 4 }),
    ]
}

/// Work units of a sub-alphabet enumeration: (kind, dim, field, first setter).
pub fn bsub_units(alphabet_len: usize) -> Vec<(Kind, DimMode, Field, BOp, Option<usize>)> {
    let mut v = Vec::new();
    for kind in KINDS {
        for dim in B_DIMS {
            for field in [Field::Real, Field::Complex] {
                let good = if dim.dynamic { BOp::NewDyn(dim.n) } else { BOp::New };
                for f in 0..alphabet_len {
                    v.push((kind, dim, field, good, Some(f)));
                }
            }
        }
    }
    v
}

/// A derivative that is never called (the builder half never iterates).
struct NoHooks;

impl StubHooks for NoHooks {
    fn on_call(&self, _t: f64, _ymax: f64) -> Option<UserError> {
        None
    }
    fn problem(&self) -> Problem {
        Problem::Zero
    }
}

/// Marks the worker as being inside the builder fast path for the watchdog (see `watch::beat`).
struct FastGuard;

impl FastGuard {
    fn new() -> FastGuard {
        crate::run::watch::fast_enter();
        FastGuard
    }
}

impl Drop for FastGuard {
    fn drop(&mut self) {
        crate::run::watch::fast_leave();
    }
}

thread_local! {
    /// the instantiation the fast path is working on (for the abort handler)
    static CURRENT_UNIT: std::cell::Cell<Option<(Kind, DimMode, Field)>> = const { std::cell::Cell::new(None) };
}

/// The builder chain the calling thread's fast path is replaying right now, as a run.
pub fn current_chain_spec() -> Option<RunSpec> {
    let (kind, dim, field) = CURRENT_UNIT.with(|u| u.get())?;
    let chain = CURRENT_CHAIN.with(|c| c.try_borrow().ok().map(|c| c.clone()))?;
    if chain.is_empty() {
        return None;
    }
    Some(chain_spec(kind, dim, field, chain, true))
}

thread_local! {
    /// the chain the fast path is replaying right now, so that a panic can be attributed
    static CURRENT_CHAIN: std::cell::RefCell<Vec<BOp>> = const { std::cell::RefCell::new(Vec::new()) };
}

#[derive(Default)]
pub struct ChainStats {
    pub chains: u64,
    pub calls: u64,
    pub rejected: u64,
    pub built: u64,
    pub missing: u64,
    pub by_class: [u64; 16],
    pub hook_reads: u64,
    pub hook_both: u64,
    pub hook_clamped: u64,
    pub euler_tol_ok: u64,
    pub builder_inverted: u64,
    pub solver_reads: u64,
    /// chains of at most this many setters that the model accepts and that are not complete are
    /// completed with canonical valid values for whatever is missing, so that solve() builds
    pub complete_upto: usize,
    /// set by the enumeration for the second evaluation of a chain: this time with the completion
    pub completing: bool,
    pub completed: u64,
    /// completed chains that built / whose chain ended in a rejection (they overlap with longer
    /// plain chains, so they are not counted as distinct cases)
    pub completed_outcomes: u64,
    pub solver_inverted_only: u64,
    pub hash: u64,
    pub mismatch: Option<Vec<BOp>>,
}

#[inline]
fn class_of(e: &IVPError) -> ErrClass {
    ErrClass::of(e)
}

/// The canonical completion of a chain the model accepts: valid values for every parameter that
/// is still missing, in a fixed order. Empty if the chain is rejected somewhere or already complete.
fn completion(ctor: &BOp, ops: &[BOp], dim: DimMode, euler: bool) -> ([BOp; 7], usize) {
    let mut out = [BOp::Deriv; 7];
    let mut n = 0;
    let mut m = Model::new(euler, dim.dynamic);
    if !matches!(m.expect(ctor), Expect::Ok) {
        return (out, 0);
    }
    m.commit(ctor);
    for op in ops {
        match m.expect(op) {
            Expect::Ok | Expect::OkOrErr(_) => m.commit(op),
            Expect::Err(_) => return (out, 0),
        }
    }
    let mut push = |op: BOp| {
        out[n] = op;
        n += 1;
    };
    if !euler && !m.tol {
        push(BOp::Tol(1e-3));
    }
    if !m.max {
        push(BOp::Max(0.5));
    }
    if !euler && !m.min {
        push(BOp::Min(1e-3));
    }
    let start = match (m.start, m.end) {
        (Some(s), _) => s,
        (None, Some(e)) => {
            let st = if e.abs() < 1e15 { e - 1.0 } else if e > 0.0 { e / 2.0 } else { e * 2.0 };
            push(BOp::Start(st));
            st
        }
        (None, None) => {
            push(BOp::Start(0.0));
            0.0
        }
    };
    if m.end.is_none() {
        // strictly after the start also when the start is so large that start + 1 == start
        push(BOp::End(if start.abs() < 1e15 { start + 1.0 } else if start > 0.0 { start * 2.0 } else { start / 2.0 }));
    }
    if !m.ic {
        push(BOp::IcSlice);
    }
    if !m.deriv {
        push(BOp::Deriv);
    }
    (out, n)
}

/// Replay one chain (constructor, setters, then `solve`) on the real builder of type S, checking
/// each call against the model. Returns false on the first disagreement.
fn eval_chain<S, N, D, U>(ctor: &BOp, ops: &[BOp], dim: DimMode, euler: bool, hooks: &Rc<dyn StubHooks>, cs: &mut ChainStats) -> bool
where
    N: Scalar,
    U: SimData,
    D: Dimension + 'static,
    DefaultAllocator: Allocator<N, D>,
    S: IVPSolver<'static, D, Error = IVPError, Field = N, RealField = f64, UserData = U, Derivative = DerivBox<N, D, U>>
        + DtBounds
        + AsCalled<N, D, U, Iter = IVPIterator<D, <S as IVPSolver<'static, D>>::Solver>>
        + 'static,
    S::Solver: SolverBounds,
{
    let mut model = Model::new(euler, dim.dynamic);
    let n = dim.n as usize;
    CURRENT_CHAIN.with(|c| {
        let mut c = c.borrow_mut();
        c.clear();
        c.push(*ctor);
        c.extend_from_slice(ops);
    });
    cs.chains += 1;
    cs.calls += 1;
    crate::run::watch::beat();
    let exp = model.expect(ctor);
    let r = match ctor {
        BOp::New => S::c_new(),
        BOp::NewDyn(k) => S::c_new_dyn(*k as usize),
        _ => unreachable!(),
    };
    let mut b = match r {
        Ok(b) => {
            if !exp.admits(Outcome::Ok) {
                return false;
            }
            model.commit(ctor);
            b
        }
        Err(e) => {
            let c = class_of(&e);
            cs.rejected += 1;
            cs.by_class[c.code() as usize] += 1;
            return exp.admits(Outcome::Err(c));
        }
    };
    let mut prev_bounds: (Option<f64>, Option<f64>) = (None, None);
    let mut inverted_now = false;
    let (extra, n_extra) = if cs.completing { completion(ctor, ops, dim, euler) } else { ([BOp::Deriv; 7], 0) };
    if n_extra > 0 {
        cs.completed += 1;
        CURRENT_CHAIN.with(|c| c.borrow_mut().extend_from_slice(&extra[..n_extra]));
    }
    for op in ops.iter().chain(extra[..n_extra].iter()) {
        cs.calls += 1;
        let exp = model.expect(op);
        let r = match *op {
            BOp::Tol(v) => b.c_tol(v),
            BOp::Max(v) => b.c_max(v),
            BOp::Min(v) => b.c_min(v),
            BOp::Start(v) => b.c_start(v),
            BOp::End(v) => b.c_end(v),
            BOp::IcSlice => b.c_ic_slice(&initial_state::<N>(n, 1.0)),
            BOp::IcVec => b.c_ic(make_vec::<N, D>(n, &initial_state::<N>(n, 1.0))),
            BOp::Deriv => Ok(b.c_deriv(make_deriv::<N, D, U>(hooks.clone()))),
            _ => unreachable!(),
        };
        match r {
            Ok(nb) => {
                if !exp.admits(Outcome::Ok) {
                    return false;
                }
                if let (Expect::OkOrErr(_), true) = (exp, euler) {
                    cs.euler_tol_ok += 1;
                }
                model.commit(op);
                b = nb;
                // B7
                if let Some((lo, hi)) = b.dt_bounds() {
                    cs.hook_reads += 1;
                    inverted_now = false;
                    if let (Some(l), Some(h)) = (lo, hi) {
                        cs.hook_both += 1;
                        if !(l <= h) {
                            // judged at solve() together with what reaches the solver (below);
                            // a builder may legitimately reconcile its bounds later
                            cs.builder_inverted += 1;
                            inverted_now = true;
                        }
                        // the call just made moved the *other* bound: a clamping branch ran
                        match *op {
                            BOp::Max(_) if prev_bounds.0.is_some() && prev_bounds.0 != lo => cs.hook_clamped += 1,
                            BOp::Min(_) if prev_bounds.1.is_some() && prev_bounds.1 != hi => cs.hook_clamped += 1,
                            _ => {}
                        }
                    }
                    prev_bounds = (lo, hi);
                }
            }
            Err(e) => {
                let c = class_of(&e);
                cs.rejected += 1;
                cs.by_class[c.code() as usize] += 1;
                return exp.admits(Outcome::Err(c));
            }
        }
    }
    // B5: solve after this prefix
    cs.calls += 1;
    let exp = model.expect(&BOp::Solve);
    match b.c_solve(U::fresh()) {
        Ok(it) => {
            cs.built += 1;
            // B7: the setters left minimum <= maximum, or at the latest solve() did
            if let Some((lo, hi)) = it.verif_solver().solver_bounds() {
                cs.solver_reads += 1;
                if !(lo <= hi) {
                    if inverted_now {
                        return false;
                    }
                    cs.solver_inverted_only += 1;
                }
            }
            exp.admits(Outcome::Ok)
        }
        Err(e) => {
            let c = class_of(&e);
            if c == ErrClass::Missing {
                cs.missing += 1;
            }
            cs.by_class[c.code() as usize] += 1;
            exp.admits(Outcome::Err(c))
        }
    }
}

/// Would the model accept every call of this prefix? (Used to cut the tree without touching
/// the real builder: extensions of a chain the *model* rejects are not chains of accepted
/// calls. If the real builder disagrees, eval_chain reports it on the prefix itself.)
fn model_accepts(ctor: &BOp, ops: &[BOp], dim: DimMode, euler: bool) -> bool {
    let mut m = Model::new(euler, dim.dynamic);
    if !matches!(m.expect(ctor), Expect::Ok) {
        return false;
    }
    m.commit(ctor);
    for op in ops {
        match m.expect(op) {
            Expect::Ok => m.commit(op),
            // Euler's tolerance no-op: the real builder decides; treat as accepted for the cut
            Expect::OkOrErr(_) => m.commit(op),
            Expect::Err(_) => return false,
        }
    }
    true
}

struct EnumChains<'a> {
    kind: Kind,
    dim: DimMode,
    ctor: BOp,
    alphabet: &'a [BOp],
    /// first setter fixed (parallel work unit), or None for "constructor only"
    first: Option<usize>,
    maxlen: usize,
    complete_upto: usize,
}

impl<'a> Visitor for EnumChains<'a> {
    type Out = ChainStats;
    fn visit<S, N, D, U>(self) -> ChainStats
    where
        N: Scalar,
        U: SimData,
        D: Dimension + 'static,
        DefaultAllocator: Allocator<N, D>,
        S: IVPSolver<'static, D, Error = IVPError, Field = N, RealField = f64, UserData = U, Derivative = DerivBox<N, D, U>>
            + DtBounds
            + AsCalled<N, D, U, Iter = IVPIterator<D, <S as IVPSolver<'static, D>>::Solver>>
            + 'static,
        S::Solver: SolverBounds + 'static,
    {
        let hooks: Rc<dyn StubHooks> = Rc::new(NoHooks);
        let euler = self.kind.is_euler();
        let mut cs = ChainStats { complete_upto: self.complete_upto, ..Default::default() };
        let a = self.alphabet;
        let mut chain: Vec<BOp> = Vec::with_capacity(self.maxlen);
        let mut idx: Vec<usize> = Vec::with_capacity(self.maxlen);
        let mut last_id: u64 = 0;
        // iterative DFS over index vectors; chain ids are strictly increasing in enumeration
        // order per length-prefix, which is what makes every enumerated chain distinct
        let first = match self.first {
            None => {
                let mut ok = eval_chain::<S, N, D, U>(&self.ctor, &[], self.dim, euler, &hooks, &mut cs);
                if ok && self.complete_upto > 0 && completion(&self.ctor, &[], self.dim, euler).1 > 0 {
                    let before = cs.rejected + cs.built;
                    cs.completing = true;
                    ok = eval_chain::<S, N, D, U>(&self.ctor, &[], self.dim, euler, &hooks, &mut cs);
                    cs.completing = false;
                    cs.completed_outcomes += cs.rejected + cs.built - before;
                }
                if !ok {
                    cs.mismatch = Some(CURRENT_CHAIN.with(|c| c.borrow().clone()));
                }
                return cs;
            }
            Some(f) => f,
        };
        idx.push(first);
        chain.push(a[first]);
        loop {
            // evaluate the current chain
            let mut id: u64 = 0;
            for &i in &idx {
                id = id * (a.len() as u64 + 1) + i as u64 + 1;
            }
            cs.hash = cs.hash.wrapping_add(id.wrapping_mul(0x9E37_79B9_7F4A_7C15) ^ (idx.len() as u64));
            let _ = last_id;
            last_id = id;
            let ok = eval_chain::<S, N, D, U>(&self.ctor, &chain, self.dim, euler, &hooks, &mut cs);
            if !ok {
                cs.mismatch = Some(CURRENT_CHAIN.with(|c| c.borrow().clone()));
                return cs;
            }
            // the same chain once more, completed with canonical values for what is missing, so
            // that solve() builds (the plain evaluation above has seen solve() on the prefix)
            if chain.len() <= self.complete_upto && completion(&self.ctor, &chain, self.dim, euler).1 > 0 {
                let before = cs.rejected + cs.built;
                cs.completing = true;
                let ok = eval_chain::<S, N, D, U>(&self.ctor, &chain, self.dim, euler, &hooks, &mut cs);
                cs.completing = false;
                cs.completed_outcomes += cs.rejected + cs.built - before;
                if !ok {
                    // the chain as replayed, with the canonical completion appended
                    cs.mismatch = Some(CURRENT_CHAIN.with(|c| c.borrow().clone()));
                    return cs;
                }
            }
            // descend if every call of this chain is accepted and there is room
            let descend = idx.len() < self.maxlen && model_accepts(&self.ctor, &chain, self.dim, euler);
            if descend {
                idx.push(0);
                chain.push(a[0]);
                continue;
            }
            // advance
            loop {
                if idx.len() == 1 {
                    return cs;
                }
                let l = idx.len() - 1;
                if idx[l] + 1 < a.len() {
                    idx[l] += 1;
                    chain[l] = a[idx[l]];
                    break;
                }
                idx.pop();
                chain.pop();
            }
        }
    }
}

pub const B_DIMS: [DimMode; 4] = [
    DimMode { dynamic: false, n: 1 },
    DimMode { dynamic: false, n: 2 },
    DimMode { dynamic: false, n: 3 },
    DimMode { dynamic: true, n: 2 },
];

/// Work units of the exhaustive chain enumeration: (kind, dim, field, ctor, first setter).
pub fn bexh_units(alphabet_len: usize) -> Vec<(Kind, DimMode, Field, BOp, Option<usize>)> {
    let mut v = Vec::new();
    for kind in KINDS {
        for dim in B_DIMS {
            for field in [Field::Real, Field::Complex] {
                // the matching constructor, followed by chains
                let good = if dim.dynamic { BOp::NewDyn(dim.n) } else { BOp::New };
                for f in 0..alphabet_len {
                    v.push((kind, dim, field, good, Some(f)));
                }
                v.push((kind, dim, field, good, None));
                // the mismatching constructor (B1); for a static dimension every run-time
                // size is misuse, whether or not it happens to equal the static one
                if dim.dynamic {
                    v.push((kind, dim, field, BOp::New, None));
                } else {
                    for k in [dim.n, dim.n + 1, 0, 1] {
                        v.push((kind, dim, field, BOp::NewDyn(k), None));
                    }
                }
            }
        }
    }
    v
}

fn merge_chain_stats(st: &mut Stats, kind: Kind, cs: &ChainStats) {
    st.chains += cs.chains;
    *st.chains_by_kind.entry(kind.name()).or_insert(0) += cs.chains;
    st.builder_calls += cs.calls;
    st.chains_rejected += cs.rejected;
    st.chains_built += cs.built;
    st.chains_missing += cs.missing;
    for (i, n) in cs.by_class.iter().enumerate() {
        if *n > 0 {
            let name = [
                ErrClass::Missing,
                ErrClass::User,
                ErrClass::TolOOB,
                ErrClass::DtOOB,
                ErrClass::EndOOB,
                ErrClass::StartOOB,
                ErrClass::FromPrim,
                ErrClass::MinDt,
                ErrClass::MaxIter,
                ErrClass::Singular,
                ErrClass::DynOnStatic,
                ErrClass::StaticOnDyn,
                ErrClass::Other,
            ][i]
                .name();
            *st.rejected_by_class.entry(name).or_insert(0) += n;
        }
    }
    st.hook_reads += cs.hook_reads;
    st.hook_both_set += cs.hook_both;
    st.hook_clamped += cs.hook_clamped;
    st.builder_inverted += cs.builder_inverted;
    st.solver_bound_reads += cs.solver_reads;
    st.chains_completed += cs.completed;
    st.solver_inverted_only += cs.solver_inverted_only;
    st.euler_tol_nonpositive_ok += cs.euler_tol_ok;
    st.chain_hash = st.chain_hash.wrapping_add(cs.hash);
}

fn chain_spec(kind: Kind, dim: DimMode, field: Field, ops: Vec<BOp>, with_solve: bool) -> RunSpec {
    let mut ops = ops;
    if with_solve {
        ops.push(BOp::Solve);
    }
    RunSpec {
        instances: vec![InstSpec {
            kind,
            dim,
            field,
            data: DataMode::Unit,
            ops,
            problem: Problem::Zero,
            y0: 1.0,
            plan: FaultPlan::None,
            payload: Payload::Typed,
            drive: Drive::Poll,
            extra_polls: 1,
            nested_every: 0,
        }],
        sched_seed: 0,
        phased: false,
        solo_baselines: true,
    }
}

/// A disagreement found by the fast path is confirmed through `execute`, which is what replay
/// files run; only then is it a violation.
fn confirm(mode: u8, unit: u64, kind: Kind, dim: DimMode, field: Field, chain: Vec<BOp>, st: &mut Stats, errs: &mut Vec<String>) {
    confirm_with(mode, unit, kind, dim, field, DataMode::Unit, chain, st, errs)
}

#[allow(clippy::too_many_arguments)]
fn confirm_with(mode: u8, unit: u64, kind: Kind, dim: DimMode, field: Field, data: DataMode, chain: Vec<BOp>, st: &mut Stats, errs: &mut Vec<String>) {
    let mut spec = chain_spec(kind, dim, field, chain.clone(), true);
    spec.instances[0].data = data;
    let b = [Budget { max_calls: 2_000, max_polls: 2_000 }];
    let r = execute(&spec, &b, &ExecOpts::default());
    match r.violation {
        Some(v) => st.found(FoundViolation { id: (mode, unit, 0), spec, budgets: b.to_vec(), violation: v }),
        None => errs.push(format!(
            "builder enumeration disagreed with the model on {:?} for {} but the replayable path does not",
            chain,
            kind.name()
        )),
    }
}

pub fn run_bexh_unit(
    mode: u8,
    ui: u64,
    unit: &(Kind, DimMode, Field, BOp, Option<usize>),
    alphabet: &[BOp],
    maxlen: usize,
    complete_upto: usize,
    st: &mut Stats,
    errs: &mut Vec<String>,
) {
    let _fast = FastGuard::new();
    let (kind, dim, field, ctor, first) = *unit;
    CURRENT_UNIT.with(|u| u.set(Some((kind, dim, field))));
    let v = EnumChains { kind, dim, ctor, alphabet, first, maxlen, complete_upto };
    let r = catch_unwind(AssertUnwindSafe(|| dispatch(kind, dim, field, DataMode::Unit, v)));
    match r {
        Ok(cs) => {
            merge_chain_stats(st, kind, &cs);
            if mode == crate::stats::MODE_BEXH {
                // only the main enumeration is counted as distinct cases: the deeper sub-alphabet
                // chains, the orders, subsets and insertions overlap with it and with each other
                st.bexh_distinct += cs.rejected + cs.built - cs.completed_outcomes;
            }
            if let Some(chain) = cs.mismatch {
                confirm(mode, ui, kind, dim, field, chain, st, errs);
            }
        }
        Err(_) => {
            // B6: a chain of this unit panicked; it is the one the fast path was replaying.
            // Confirm it through the replayable path, which catches panics per call.
            let chain = CURRENT_CHAIN.with(|c| c.borrow().clone());
            let before = st.violations.len();
            if !chain.is_empty() {
                let spec = chain_spec(kind, dim, field, chain, true);
                let b = [Budget { max_calls: 2_000, max_polls: 2_000 }];
                let r = execute(&spec, &b, &ExecOpts::default());
                if let Some(v) = r.violation {
                    st.found(FoundViolation { id: (mode, ui, 0), spec, budgets: b.to_vec(), violation: v });
                }
            }
            if st.violations.len() == before {
                find_panic(ui, kind, dim, field, ctor, first, alphabet, maxlen, st, errs);
            }
        }
    }
}

#[allow(clippy::too_many_arguments)]
fn find_panic(
    ui: u64,
    kind: Kind,
    dim: DimMode,
    field: Field,
    ctor: BOp,
    first: Option<usize>,
    alphabet: &[BOp],
    maxlen: usize,
    st: &mut Stats,
    errs: &mut Vec<String>,
) {
    // breadth-first over chains of increasing length through `execute`
    let mut frontier: Vec<Vec<BOp>> = match first {
        Some(f) => vec![vec![ctor, alphabet[f]]],
        None => vec![vec![ctor]],
    };
    let b = [Budget { max_calls: 2_000, max_polls: 2_000 }];
    let mut budget = 2_000_000u64;
    while !frontier.is_empty() {
        let mut next = Vec::new();
        for chain in frontier {
            if budget == 0 {
                errs.push(format!("builder enumeration unit {} panicked but the panic was not found again", ui));
                return;
            }
            budget -= 1;
            let spec = chain_spec(kind, dim, field, chain.clone(), true);
            let r = execute(&spec, &b, &ExecOpts::default());
            if let Some(v) = r.violation {
                st.found(FoundViolation { id: (crate::stats::MODE_BEXH, ui, 0), spec, budgets: b.to_vec(), violation: v });
                return;
            }
            let accepted = r.insts[0].builder_rejected.is_none();
            if accepted && chain.len() - 1 < maxlen && first.is_some() {
                for a in alphabet {
                    let mut c = chain.clone();
                    c.push(*a);
                    next.push(c);
                }
            }
        }
        frontier = next;
    }
    errs.push(format!("builder enumeration unit {} panicked but no chain reproduces it", ui));
}

// ---------------------------------------------------------------------------------------------
// all orders of the complete valid configuration

struct EvalOne<'a> {
    ctor: BOp,
    ops: &'a [BOp],
    dim: DimMode,
    euler: bool,
    cs: &'a mut ChainStats,
}

impl<'a> Visitor for EvalOne<'a> {
    type Out = bool;
    fn visit<S, N, D, U>(self) -> bool
    where
        N: Scalar,
        U: SimData,
        D: Dimension + 'static,
        DefaultAllocator: Allocator<N, D>,
        S: IVPSolver<'static, D, Error = IVPError, Field = N, RealField = f64, UserData = U, Derivative = DerivBox<N, D, U>>
            + DtBounds
            + AsCalled<N, D, U, Iter = IVPIterator<D, <S as IVPSolver<'static, D>>::Solver>>
            + 'static,
        S::Solver: SolverBounds + 'static,
    {
        let hooks: Rc<dyn StubHooks> = Rc::new(NoHooks);
        eval_chain::<S, N, D, U>(&self.ctor, self.ops, self.dim, self.euler, &hooks, self.cs)
    }
}

fn permutations(n: usize) -> Vec<Vec<usize>> {
    fn rec(cur: &mut Vec<usize>, used: &mut Vec<bool>, n: usize, out: &mut Vec<Vec<usize>>) {
        if cur.len() == n {
            out.push(cur.clone());
            return;
        }
        for i in 0..n {
            if !used[i] {
                used[i] = true;
                cur.push(i);
                rec(cur, used, n, out);
                cur.pop();
                used[i] = false;
            }
        }
    }
    let mut out = Vec::new();
    rec(&mut Vec::new(), &mut vec![false; n], n, &mut out);
    out
}

/// Units: one per builder instantiation. Every order of the seven setters of a complete valid
/// configuration, in two variants (minimum below / above maximum), must build.
pub fn bperm_units() -> Vec<(Kind, DimMode, Field)> {
    let mut v = Vec::new();
    for kind in KINDS {
        for dim in B_DIMS {
            for field in [Field::Real, Field::Complex] {
                v.push((kind, dim, field));
            }
        }
    }
    v
}

fn perm_setters(variant: usize) -> [BOp; 7] {
    let (min, max) = if variant == 0 { (1e-3, 0.1) } else { (0.2, 0.05) };
    [
        BOp::Tol(1e-3),
        BOp::Max(max),
        BOp::Min(min),
        BOp::Start(0.0),
        BOp::End(0.4),
        if variant == 0 { BOp::IcSlice } else { BOp::IcVec },
        BOp::Deriv,
    ]
}

/// A deterministic stride of the orders goes on to the F half as extra fault-grid groups, so
/// that "a complete valid configuration always builds" is followed by "and what it builds
/// iterates and fails correctly" for unusual call orders too.
pub fn bperm_f_groups() -> Vec<InstSpec> {
    let perms = permutations(7);
    let mut out = Vec::new();
    for (ui, (kind, dim, field)) in bperm_units().into_iter().enumerate() {
        let ctor = if dim.dynamic { BOp::NewDyn(dim.n) } else { BOp::New };
        for variant in 0..2usize {
            let setters = perm_setters(variant);
            for (pi, p) in perms.iter().enumerate() {
                if (pi as u64 + ui as u64 * 31 + variant as u64 * 7) % 2521 == 0 {
                    let mut ops = vec![ctor];
                    ops.extend(p.iter().map(|&i| setters[i]));
                    ops.push(BOp::Solve);
                    out.push(InstSpec {
                        kind,
                        dim,
                        field,
                        data: if pi % 3 == 0 { DataMode::Counter } else { DataMode::Unit },
                        ops,
                        problem: if pi % 2 == 0 { Problem::Linear } else { Problem::Quadratic },
                        y0: 1.0,
                        plan: FaultPlan::None,
                        payload: Payload::Typed,
                        drive: Drive::Poll,
                        extra_polls: 8,
                        nested_every: 0,
                    });
                }
            }
        }
    }
    out
}

pub fn run_bperm_unit(ui: u64, unit: &(Kind, DimMode, Field), st: &mut Stats, errs: &mut Vec<String>) {
    let _fast = FastGuard::new();
    let (kind, dim, field) = *unit;
    let ctor = if dim.dynamic { BOp::NewDyn(dim.n) } else { BOp::New };
    let perms = permutations(7);
    let mut cs = ChainStats::default();
    for variant in 0..2usize {
        let setters = perm_setters(variant);
        for p in perms.iter() {
            let ops: Vec<BOp> = p.iter().map(|&i| setters[i]).collect();
            let before_built = cs.built;
            let data = if ui % 2 == 0 { DataMode::Unit } else { DataMode::Counter };
            let ok = {
                let v = EvalOne { ctor, ops: &ops, dim, euler: kind.is_euler(), cs: &mut cs };
                catch_unwind(AssertUnwindSafe(|| dispatch(kind, dim, field, data, v))).unwrap_or(false)
            };
            if !ok || cs.built != before_built + 1 {
                let mut full = vec![ctor];
                full.extend(ops.iter().copied());
                merge_chain_stats(st, kind, &cs);
                confirm_with(crate::stats::MODE_BPERM, ui, kind, dim, field, data, full, st, errs);
                return;
            }
        }
    }
    merge_chain_stats(st, kind, &cs);
}

// ---------------------------------------------------------------------------------------------
// complete configuration minus every subset of its setters

/// Units: one per builder instantiation. The seven setters of a complete configuration in three
/// orders, with every non-empty subset left out: `solve()` must report `MissingParameters`
/// exactly when a mandatory parameter is among the missing ones (for Euler the tolerance is not
/// mandatory and one of the two step bounds suffices).
pub fn run_bmissing_unit(ui: u64, unit: &(Kind, DimMode, Field), st: &mut Stats, errs: &mut Vec<String>) {
    let _fast = FastGuard::new();
    let (kind, dim, field) = *unit;
    let data = if ui % 2 == 0 { DataMode::Unit } else { DataMode::Counter };
    let ctor = if dim.dynamic { BOp::NewDyn(dim.n) } else { BOp::New };
    let orders: [[BOp; 7]; 3] = [
        [BOp::Tol(1e-3), BOp::Max(0.05), BOp::Min(1e-3), BOp::Start(0.0), BOp::End(1.0), BOp::IcSlice, BOp::Deriv],
        [BOp::Deriv, BOp::IcVec, BOp::End(1.0), BOp::Start(0.0), BOp::Min(0.2), BOp::Max(0.05), BOp::Tol(1e-3)],
        [BOp::Min(1e-3), BOp::End(3.0), BOp::Tol(1e-3), BOp::IcSlice, BOp::Max(0.5), BOp::Deriv, BOp::Start(2.0)],
    ];
    let mut cs = ChainStats::default();
    for base in orders.iter() {
        for mask in 1u32..128 {
            let ops: Vec<BOp> = base.iter().enumerate().filter(|(i, _)| mask & (1 << i) == 0).map(|(_, o)| *o).collect();
            let ok = {
                let v = EvalOne { ctor, ops: &ops, dim, euler: kind.is_euler(), cs: &mut cs };
                catch_unwind(AssertUnwindSafe(|| dispatch(kind, dim, field, data, v))).unwrap_or(false)
            };
            if !ok {
                let mut full = vec![ctor];
                full.extend(ops.iter().copied());
                merge_chain_stats(st, kind, &cs);
                confirm_with(crate::stats::MODE_BMISS, ui, kind, dim, field, data, full, st, errs);
                return;
            }
        }
    }
    merge_chain_stats(st, kind, &cs);
}

// ---------------------------------------------------------------------------------------------
// complete configuration with extra calls inserted

/// Units: (instantiation, canonical order). The seven valid setters in a canonical order, with
/// up to `extras` further calls from the alphabet inserted at every position.
pub fn bins_units() -> Vec<(Kind, DimMode, Field, u8)> {
    let mut v = Vec::new();
    for kind in KINDS {
        for dim in B_DIMS {
            for field in [Field::Real, Field::Complex] {
                for order in 0..3u8 {
                    v.push((kind, dim, field, order));
                }
            }
        }
    }
    v
}

pub fn run_bins_unit(ui: u64, unit: &(Kind, DimMode, Field, u8), alphabet: &[BOp], extras: usize, st: &mut Stats, errs: &mut Vec<String>) {
    let _fast = FastGuard::new();
    let (kind, dim, field, order) = *unit;
    let ctor = if dim.dynamic { BOp::NewDyn(dim.n) } else { BOp::New };
    let base: Vec<BOp> = match order {
        0 => vec![BOp::Tol(1e-3), BOp::Max(0.05), BOp::Min(1e-3), BOp::Start(0.0), BOp::End(1.0), BOp::IcSlice, BOp::Deriv],
        1 => vec![BOp::Deriv, BOp::IcVec, BOp::End(1.0), BOp::Start(0.0), BOp::Min(0.2), BOp::Max(0.05), BOp::Tol(1e-3)],
        _ => vec![BOp::Min(1e-3), BOp::End(3.0), BOp::Tol(1e-3), BOp::IcSlice, BOp::Max(0.5), BOp::Deriv, BOp::Start(2.0)],
    };
    let mut cs = ChainStats::default();
    let euler = kind.is_euler();
    // choose positions (with repetition, non-decreasing) and symbols for 1..=extras insertions
    let npos = base.len() + 1;
    let a = alphabet.len();
    for e in 1..=extras {
        let total_pos = npos.pow(e as u32);
        let total_sym = a.pow(e as u32);
        for pc in 0..total_pos {
            let mut pos: Vec<usize> = Vec::with_capacity(e);
            let mut x = pc;
            for _ in 0..e {
                pos.push(x % npos);
                x /= npos;
            }
            if pos.windows(2).any(|w| w[0] > w[1]) {
                continue; // each multiset of positions once (insertions at one position keep their order)
            }
            for sc in 0..total_sym {
                let mut syms: Vec<usize> = Vec::with_capacity(e);
                let mut y = sc;
                for _ in 0..e {
                    syms.push(y % a);
                    y /= a;
                }
                let mut ops: Vec<BOp> = Vec::with_capacity(base.len() + e);
                let mut j = 0;
                for (bi, b) in base.iter().enumerate() {
                    while j < e && pos[j] == bi {
                        ops.push(alphabet[syms[j]]);
                        j += 1;
                    }
                    ops.push(*b);
                }
                while j < e {
                    ops.push(alphabet[syms[j]]);
                    j += 1;
                }
                let ok = {
                    let v = EvalOne { ctor, ops: &ops, dim, euler, cs: &mut cs };
                    catch_unwind(AssertUnwindSafe(|| dispatch(kind, dim, field, DataMode::Unit, v))).unwrap_or(false)
                };
                if !ok {
                    let mut full = vec![ctor];
                    full.extend(ops.iter().copied());
                    merge_chain_stats(st, kind, &cs);
                    confirm(crate::stats::MODE_BINS, ui, kind, dim, field, full, st, errs);
                    return;
                }
            }
        }
    }
    merge_chain_stats(st, kind, &cs);
}
