//! Coverage accounting. Everything here is a commutative sum, a set, or a minimum over run
//! indices, so merging per-worker statistics gives the same result for any worker count.

use crate::json::J;
use crate::model::ErrClass;
use crate::run::{EndedBy, InstSummary, Violation};
use crate::spec::{InstSpec, Kind, RunSpec, KINDS, PAYLOADS};
use std::collections::{BTreeMap, BTreeSet};

/// Identifies a run independently of the worker that executed it: (mode, group, sub-index).
pub type RunId = (u8, u64, u64);

pub const MODE_FGRID: u8 = 1;
pub const MODE_SWARM: u8 = 2;
pub const MODE_BEXH: u8 = 3;
pub const MODE_BPERM: u8 = 4;
pub const MODE_BINS: u8 = 5;
pub const MODE_GATE: u8 = 0;
pub const MODE_BMISS: u8 = 6;
pub const MODE_BSUB: u8 = 7;

pub fn mode_name(m: u8) -> &'static str {
    match m {
        MODE_FGRID => "fault-grid",
        MODE_SWARM => "swarm",
        MODE_BEXH => "builder-chains",
        MODE_BPERM => "builder-orders",
        MODE_BINS => "builder-insertions",
        MODE_GATE => "hermeticity-gate",
        MODE_BMISS => "builder-missing-subsets",
        MODE_BSUB => "builder-chains-sub-alphabet",
        _ => "?",
    }
}

#[derive(Clone, Debug)]
pub struct FoundViolation {
    pub id: RunId,
    pub spec: RunSpec,
    pub budgets: Vec<crate::run::Budget>,
    pub violation: Violation,
}

impl FoundViolation {
    /// Signature used to group violations and to match known findings: class, solver, and for
    /// builder violations the offending call.
    pub fn signature(&self) -> String {
        let inst = self.spec.instances.get(self.violation.inst as usize);
        let kind = inst.map(|i| i.kind.name()).unwrap_or("?");
        format!("{}:{}", self.violation.class, kind)
    }

    /// A replay document for this violation as found (not minimised).
    pub fn raw_replay(&self) -> String {
        crate::json::J::obj(vec![
            ("property", crate::json::J::s("C06")),
            ("class", crate::json::J::s(self.violation.class)),
            ("signature", crate::json::J::S(self.signature())),
            ("detail", crate::json::J::S(self.violation.detail.clone())),
            ("violating_instance", crate::json::J::U(self.violation.inst as u64)),
            ("found_with_build", crate::json::J::s(if cfg!(debug_assertions) { "dbgassert" } else { "release" })),
            ("minimised", crate::json::J::Bool(false)),
            ("spec", self.spec.to_json()),
            ("budgets", crate::run::budgets_to_json(&self.budgets)),
        ])
        .to_string_pretty()
    }
}

#[derive(Default, Clone)]
pub struct Stats {
    // simulated runs
    pub runs: u64,
    pub runs_by_mode: BTreeMap<u8, u64>,
    pub deriv_calls: u64,
    pub polls: u64,
    pub ok_items: u64,
    pub instances: u64,

    // faults
    pub fault_runs: u64,
    pub fired_runs: u64,
    pub faults_fired: u64,
    pub fired_by_plan: BTreeMap<&'static str, u64>,
    pub fired_by_payload: BTreeMap<&'static str, u64>,
    pub fired_by_kind: BTreeMap<&'static str, u64>,
    pub not_reached_by_kind: BTreeMap<&'static str, u64>,
    pub fired_by_drive: BTreeMap<String, u64>,
    pub surfaced: u64,
    pub surfaced_not_first: u64,
    pub not_in_source_chain: u64,
    pub calls_after_fire_max: u64,
    pub ok_after_fire_max: u64,

    // reference runs
    pub ref_runs: u64,
    pub ref_ended: BTreeMap<String, u64>,
    pub ref_exhaustive_groups: u64,
    pub ref_sampled_groups: u64,
    pub ref_calls_max: u64,

    // distinct measures
    pub fingerprints: BTreeSet<u64>,
    pub sites: BTreeSet<u64>,
    /// (solver, dimension, field, user data) combinations in which a fault fired
    pub fired_instantiations: BTreeSet<String>,

    // reach probes
    pub probes: BTreeMap<&'static str, u64>,

    // post-end polls (probe only)
    pub extra_none: u64,
    pub extra_some_after_done: u64,
    pub after_own_err: u64,
    pub own_err_after_fault: u64,
    pub extra_polls_after_err: u64,

    // builder half
    pub chains: u64,
    pub chains_by_kind: BTreeMap<&'static str, u64>,
    pub builder_calls: u64,
    pub chains_rejected: u64,
    pub chains_built: u64,
    pub chains_missing: u64,
    pub rejected_by_class: BTreeMap<&'static str, u64>,
    pub hook_reads: u64,
    pub hook_both_set: u64,
    pub hook_clamped: u64,
    pub builder_inverted: u64,
    pub chains_completed: u64,
    pub bexh_distinct: u64,
    pub solver_inverted_only: u64,
    pub solver_bound_reads: u64,
    pub euler_tol_nonpositive_ok: u64,
    pub chain_hash: u64,

    // multi-instance
    pub multi_runs: u64,
    pub nested_polls_runs: u64,
    pub isolation_checks: u64,

    pub violations: Vec<FoundViolation>,
    pub samples: Vec<(RunId, J)>,
    /// per-run fingerprints, kept only for the determinism self-test
    pub fp_log: Option<Vec<(RunId, u64)>>,
}

fn add<K: Ord>(m: &mut BTreeMap<K, u64>, k: K, n: u64) {
    *m.entry(k).or_insert(0) += n;
}

impl Stats {
    /// Record a violation; also leave it where the watchdog can find it (see `watch::PENDING`).
    pub fn found(&mut self, fv: FoundViolation) {
        if let Ok(mut g) = crate::run::watch::PENDING.lock() {
            if g.len() < 12 && !g.iter().any(|(s, _)| *s == fv.signature()) {
                g.push((fv.signature(), fv.raw_replay()));
            }
        }
        self.violations.push(fv);
    }

    pub fn probe(&mut self, name: &'static str) {
        add(&mut self.probes, name, 1);
    }

    pub fn merge(&mut self, o: Stats) {
        self.runs += o.runs;
        for (k, v) in o.runs_by_mode {
            add(&mut self.runs_by_mode, k, v);
        }
        self.deriv_calls += o.deriv_calls;
        self.polls += o.polls;
        self.ok_items += o.ok_items;
        self.instances += o.instances;
        self.fault_runs += o.fault_runs;
        self.fired_runs += o.fired_runs;
        self.faults_fired += o.faults_fired;
        for (k, v) in o.fired_by_plan {
            add(&mut self.fired_by_plan, k, v);
        }
        for (k, v) in o.fired_by_payload {
            add(&mut self.fired_by_payload, k, v);
        }
        for (k, v) in o.fired_by_kind {
            add(&mut self.fired_by_kind, k, v);
        }
        for (k, v) in o.not_reached_by_kind {
            add(&mut self.not_reached_by_kind, k, v);
        }
        for (k, v) in o.fired_by_drive {
            add(&mut self.fired_by_drive, k, v);
        }
        self.surfaced += o.surfaced;
        self.surfaced_not_first += o.surfaced_not_first;
        self.not_in_source_chain += o.not_in_source_chain;
        self.calls_after_fire_max = self.calls_after_fire_max.max(o.calls_after_fire_max);
        self.ok_after_fire_max = self.ok_after_fire_max.max(o.ok_after_fire_max);
        self.ref_runs += o.ref_runs;
        for (k, v) in o.ref_ended {
            add(&mut self.ref_ended, k, v);
        }
        self.ref_exhaustive_groups += o.ref_exhaustive_groups;
        self.ref_sampled_groups += o.ref_sampled_groups;
        self.ref_calls_max = self.ref_calls_max.max(o.ref_calls_max);
        self.fingerprints.extend(o.fingerprints);
        self.sites.extend(o.sites);
        self.fired_instantiations.extend(o.fired_instantiations);
        for (k, v) in o.probes {
            add(&mut self.probes, k, v);
        }
        self.extra_none += o.extra_none;
        self.extra_some_after_done += o.extra_some_after_done;
        self.after_own_err += o.after_own_err;
        self.own_err_after_fault += o.own_err_after_fault;
        self.extra_polls_after_err += o.extra_polls_after_err;
        self.chains += o.chains;
        for (k, v) in o.chains_by_kind {
            add(&mut self.chains_by_kind, k, v);
        }
        self.builder_calls += o.builder_calls;
        self.chains_rejected += o.chains_rejected;
        self.chains_built += o.chains_built;
        self.chains_missing += o.chains_missing;
        for (k, v) in o.rejected_by_class {
            add(&mut self.rejected_by_class, k, v);
        }
        self.hook_reads += o.hook_reads;
        self.hook_both_set += o.hook_both_set;
        self.hook_clamped += o.hook_clamped;
        self.builder_inverted += o.builder_inverted;
        self.chains_completed += o.chains_completed;
        self.bexh_distinct += o.bexh_distinct;
        self.solver_inverted_only += o.solver_inverted_only;
        self.solver_bound_reads += o.solver_bound_reads;
        self.euler_tol_nonpositive_ok += o.euler_tol_nonpositive_ok;
        self.chain_hash = self.chain_hash.wrapping_add(o.chain_hash);
        self.multi_runs += o.multi_runs;
        self.nested_polls_runs += o.nested_polls_runs;
        self.isolation_checks += o.isolation_checks;
        self.violations.extend(o.violations);
        self.samples.extend(o.samples);
        if let (Some(a), Some(b)) = (self.fp_log.as_mut(), o.fp_log) {
            a.extend(b);
        }
    }

    /// Account one executed run of the F half / swarm (not the fast builder enumeration).
    pub fn account_run(&mut self, id: RunId, spec: &RunSpec, insts: &[InstSummary], fp: u64) {
        let mode = id.0;
        self.runs += 1;
        add(&mut self.runs_by_mode, mode, 1);
        if let Some(l) = self.fp_log.as_mut() {
            l.push((id, fp));
        }
        let mut any_fired = false;
        let mut any_plan = false;
        for (ispec, s) in spec.instances.iter().zip(insts.iter()) {
            self.instances += 1;
            self.deriv_calls += s.calls;
            self.polls += s.polls;
            self.ok_items += s.ok_items;
            self.builder_calls += s.builder_calls;
            self.hook_reads += s.hook_reads;
            self.solver_bound_reads += s.solver_reads;
            if s.solver_inverted && !s.builder_inverted {
                self.solver_inverted_only += 1;
            }
            if s.builder_inverted {
                self.builder_inverted += 1;
            }
            self.extra_none += s.extra_none;
            self.extra_some_after_done += s.extra_some_after_done;
            self.after_own_err += s.after_own_err;
            self.own_err_after_fault += s.own_err_after_fault;
            if let Some((_, c)) = s.builder_rejected {
                add(&mut self.rejected_by_class, c.name(), 1);
            }
            let planned = ispec.plan != crate::spec::FaultPlan::None;
            any_plan |= planned;
            if planned && s.built {
                if s.fired > 0 {
                    any_fired = true;
                    self.faults_fired += s.fired;
                    add(&mut self.fired_by_plan, ispec.plan.kind_name(), 1);
                    add(&mut self.fired_by_payload, ispec.payload.name(), 1);
                    add(&mut self.fired_by_kind, ispec.kind.name(), 1);
                    add(&mut self.fired_by_drive, ispec.drive.name(), 1);
                    let label = format!("{}<{},{},{}>", ispec.kind.name(), ispec.field.name(), ispec.dim.name(), ispec.data.name());
                    if !self.fired_instantiations.contains(&label) {
                        self.fired_instantiations.insert(label);
                    }
                    if s.ended_by == EndedBy::UserErr {
                        self.surfaced += 1;
                        self.extra_polls_after_err += s.extra_none;
                    }
                    if s.surfaced_not_first {
                        self.surfaced_not_first += 1;
                    }
                    if s.not_in_source_chain {
                        self.not_in_source_chain += 1;
                    }
                    self.calls_after_fire_max = self.calls_after_fire_max.max(s.calls_after_fire);
                    self.ok_after_fire_max = self.ok_after_fire_max.max(s.ok_after_fire);
                } else {
                    add(&mut self.not_reached_by_kind, ispec.kind.name(), 1);
                }
            }
        }
        if any_plan {
            self.fault_runs += 1;
        }
        if any_fired {
            self.fired_runs += 1;
        }
        // non-trivial: a fault actually fired, or a builder call was actually rejected
        if any_fired || insts.iter().any(|s| s.builder_rejected.is_some()) {
            self.fingerprints.insert(fp);
        }
        if spec.instances.len() > 1 {
            self.multi_runs += 1;
            if spec.solo_baselines {
                self.isolation_checks += spec.instances.len() as u64;
            }
            if spec.instances.iter().any(|i| i.nested_every > 0) {
                self.nested_polls_runs += 1;
            }
        }
    }

    pub fn account_reference(&mut self, s: &InstSummary) {
        self.ref_runs += 1;
        let key = match s.ended_by {
            EndedBy::SolverErr(c) => format!("Err({})", ErrClass::name(c)),
            e => format!("{:?}", e),
        };
        add(&mut self.ref_ended, key, 1);
        self.ref_calls_max = self.ref_calls_max.max(s.calls);
    }
}

pub fn kind_table(m: &BTreeMap<&'static str, u64>) -> J {
    J::O(KINDS.iter().map(|k: &Kind| (k.name().to_string(), J::U(*m.get(k.name()).unwrap_or(&0)))).collect())
}

pub fn payload_table(m: &BTreeMap<&'static str, u64>) -> J {
    J::O(PAYLOADS.iter().map(|p| (p.name().to_string(), J::U(*m.get(p.name()).unwrap_or(&0)))).collect())
}

pub fn map_table<K: ToString>(m: &BTreeMap<K, u64>) -> J {
    J::O(m.iter().map(|(k, v)| (k.to_string(), J::U(*v))).collect())
}

pub fn inst_label(i: &InstSpec) -> String {
    format!("{}<{},{}>", i.kind.name(), i.field.name(), i.dim.name())
}
