//! Executable reference model of the builder contract (DESIGN §3.5.2, clauses B1–B5).
//! Same interface as the real builders, trivial inside: which parameters are present and the
//! two values later range checks compare against.

use crate::spec::BOp;
use bacon_sci::ivp::IVPError;

#[derive(Clone, Copy, Debug, PartialEq, Eq, Hash, PartialOrd, Ord)]
pub enum ErrClass {
    Missing,
    User,
    TolOOB,
    DtOOB,
    EndOOB,
    StartOOB,
    FromPrim,
    MinDt,
    MaxIter,
    Singular,
    DynOnStatic,
    StaticOnDyn,
    Other,
}

impl ErrClass {
    pub fn of(e: &IVPError) -> ErrClass {
        #[allow(unreachable_patterns)]
        match e {
            IVPError::MissingParameters => ErrClass::Missing,
            IVPError::UserError(_) => ErrClass::User,
            IVPError::ToleranceOOB => ErrClass::TolOOB,
            IVPError::TimeDeltaOOB => ErrClass::DtOOB,
            IVPError::TimeEndOOB => ErrClass::EndOOB,
            IVPError::TimeStartOOB => ErrClass::StartOOB,
            IVPError::FromPrimitiveFailure => ErrClass::FromPrim,
            IVPError::MinimumTimeDeltaExceeded => ErrClass::MinDt,
            IVPError::MaximumIterationsExceeded => ErrClass::MaxIter,
            IVPError::SingularMatrix => ErrClass::Singular,
            IVPError::DynamicOnStatic => ErrClass::DynOnStatic,
            IVPError::StaticOnDynamic => ErrClass::StaticOnDyn,
            _ => ErrClass::Other,
        }
    }
    pub fn name(self) -> &'static str {
        match self {
            ErrClass::Missing => "MissingParameters",
            ErrClass::User => "UserError",
            ErrClass::TolOOB => "ToleranceOOB",
            ErrClass::DtOOB => "TimeDeltaOOB",
            ErrClass::EndOOB => "TimeEndOOB",
            ErrClass::StartOOB => "TimeStartOOB",
            ErrClass::FromPrim => "FromPrimitiveFailure",
            ErrClass::MinDt => "MinimumTimeDeltaExceeded",
            ErrClass::MaxIter => "MaximumIterationsExceeded",
            ErrClass::Singular => "SingularMatrix",
            ErrClass::DynOnStatic => "DynamicOnStatic",
            ErrClass::StaticOnDyn => "StaticOnDynamic",
            ErrClass::Other => "other",
        }
    }
    pub fn code(self) -> u8 {
        self as u8
    }
}

/// What a real call returned, reduced to what the contract speaks about.
#[derive(Clone, Copy, Debug, PartialEq, Eq, Hash)]
pub enum Outcome {
    Ok,
    Err(ErrClass),
    Panic,
    /// the simulator's own call budget ended the call (not an outcome of the code under test)
    Abort,
}

impl Outcome {
    pub fn name(self) -> String {
        match self {
            Outcome::Ok => "Ok".into(),
            Outcome::Err(c) => format!("Err({})", c.name()),
            Outcome::Panic => "panic".into(),
            Outcome::Abort => "budget-abort".into(),
        }
    }
    pub fn code(self) -> u8 {
        match self {
            Outcome::Ok => 0,
            Outcome::Err(c) => 1 + c.code(),
            Outcome::Panic => 255,
            Outcome::Abort => 254,
        }
    }
}

/// What the contract allows a call to return.
#[derive(Clone, Copy, Debug, PartialEq, Eq)]
pub enum Expect {
    Ok,
    Err(ErrClass),
    /// Either is within the contract. Two uses, both for Euler, whose builder has a single step
    /// length: its documented no-op `with_tolerance` given a non-positive value (DESIGN §3.7), and
    /// `solve()` when the step length was only ever given through `with_minimum_dt` (whether
    /// that alone makes the configuration complete is the implementation's choice; the shipped
    /// documentation only shows `with_maximum_dt`).
    OkOrErr(ErrClass),
}

impl Expect {
    pub fn admits(self, o: Outcome) -> bool {
        match (self, o) {
            (_, Outcome::Panic) => false,
            (_, Outcome::Abort) => true,
            // (A variant the model does not know is NOT accepted in place of the dedicated one. For
            // a while it was - "a new dedicated error is still a dedicated error" - but the check
            // cannot tell a new dedicated variant from a new wrong one, and real violations hid
            // behind that: zero reported as `NotANumber`, a missing maximum step reported as
            // `StepBoundsInverted` (DESIGN 8.8). "Their dedicated error" is read as the variant
            // the shipped API has for that kind of bad input.)
            (Expect::Ok, Outcome::Ok) => true,
            (Expect::Err(c), Outcome::Err(d)) => c == d,
            (Expect::OkOrErr(_), Outcome::Ok) => true,
            (Expect::OkOrErr(c), Outcome::Err(d)) => c == d,
            _ => false,
        }
    }
    pub fn name(self) -> String {
        match self {
            Expect::Ok => "Ok".into(),
            Expect::Err(c) => format!("Err({})", c.name()),
            Expect::OkOrErr(c) => format!("Ok or Err({})", c.name()),
        }
    }
}

#[derive(Clone, Debug)]
pub struct Model {
    pub euler: bool,
    pub dynamic: bool,
    pub constructed: bool,
    pub tol: bool,
    pub min: bool,
    pub max: bool,
    pub start: Option<f64>,
    pub end: Option<f64>,
    pub ic: bool,
    pub deriv: bool,
}

impl Model {
    pub fn new(euler: bool, dynamic: bool) -> Model {
        Model {
            euler,
            dynamic,
            constructed: false,
            tol: false,
            min: false,
            max: false,
            start: None,
            end: None,
            ic: false,
            deriv: false,
        }
    }

    #[inline]
    pub fn expect(&self, op: &BOp) -> Expect {
        match *op {
            // B1
            BOp::New => {
                if self.dynamic {
                    Expect::Err(ErrClass::StaticOnDyn)
                } else {
                    Expect::Ok
                }
            }
            BOp::NewDyn(_) => {
                if self.dynamic {
                    Expect::Ok
                } else {
                    Expect::Err(ErrClass::DynOnStatic)
                }
            }
            // B2
            BOp::Tol(v) => {
                if v <= 0.0 {
                    if self.euler {
                        Expect::OkOrErr(ErrClass::TolOOB)
                    } else {
                        Expect::Err(ErrClass::TolOOB)
                    }
                } else {
                    Expect::Ok
                }
            }
            // B3
            BOp::Max(v) | BOp::Min(v) => {
                if v <= 0.0 {
                    Expect::Err(ErrClass::DtOOB)
                } else {
                    Expect::Ok
                }
            }
            // B4
            BOp::Start(s) => match self.end {
                Some(e) if s >= e => Expect::Err(ErrClass::StartOOB),
                _ => Expect::Ok,
            },
            BOp::End(e) => match self.start {
                Some(s) if e <= s => Expect::Err(ErrClass::EndOOB),
                _ => Expect::Ok,
            },
            BOp::IcSlice | BOp::IcVec | BOp::Deriv => Expect::Ok,
            // B5
            BOp::Solve => {
                if self.complete() {
                    if self.euler && !self.max {
                        Expect::OkOrErr(ErrClass::Missing)
                    } else {
                        Expect::Ok
                    }
                } else {
                    Expect::Err(ErrClass::Missing)
                }
            }
        }
    }

    pub fn complete(&self) -> bool {
        let steps = if self.euler { self.min || self.max } else { self.tol && self.min && self.max };
        steps && self.start.is_some() && self.end.is_some() && self.ic && self.deriv
    }

    /// Record a call the real builder accepted.
    #[inline]
    pub fn commit(&mut self, op: &BOp) {
        match *op {
            BOp::New | BOp::NewDyn(_) => self.constructed = true,
            BOp::Tol(v) => {
                if v > 0.0 {
                    self.tol = true
                }
            }
            BOp::Max(_) => self.max = true,
            BOp::Min(_) => self.min = true,
            BOp::Start(s) => self.start = Some(s),
            BOp::End(e) => self.end = Some(e),
            BOp::IcSlice | BOp::IcVec => self.ic = true,
            BOp::Deriv => self.deriv = true,
            BOp::Solve => {}
        }
    }
}
