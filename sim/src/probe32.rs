//! Single-precision probe of the builder contract. The rest of the simulator instantiates the
//! solvers for `f64` and `Complex<f64>`; the builders are generic code, and a slip that depends on
//! the width of the real type (a constant converted with `from_f64` that underflows in `f32`, a
//! comparison through a lossy cast) is invisible there. This module enumerates every builder call
//! chain of up to three setters over a small alphabet, completed with canonical values, for the
//! seven builders x {Const<1>, Dyn(2)} x {f32, Complex<f32>}, against the same reference model.
//! No iteration takes place (the derivative is never called), so there is no fault half here.

use crate::model::{ErrClass, Expect, Model, Outcome};
use crate::spec::{BOp, Kind, KINDS};
use bacon_sci::ivp::adams::{Adams3, Adams5};
use bacon_sci::ivp::bdf::{BDF2, BDF6};
use bacon_sci::ivp::rk::{RungeKutta23, RungeKutta45};
use bacon_sci::ivp::{Euler, IVPError, IVPSolver, UserError};
use bacon_sci::{BVector, Dimension};
use nalgebra::{allocator::Allocator, ComplexField, Const, DefaultAllocator, Dim, Dyn, U1};
use num_complex::Complex;
use std::panic::{catch_unwind, AssertUnwindSafe};

type Deriv32<N, D> = Box<dyn FnMut(f32, &[N], &mut ()) -> Result<BVector<N, D>, UserError>>;

/// The builder API as a user calls it on the concrete type (see `inst::AsCalled`).
trait AsCalled32<N, D: Dimension>: Sized
where
    DefaultAllocator: Allocator<N, D>,
{
    type Iter;
    fn c_new() -> Result<Self, IVPError>;
    fn c_new_dyn(n: usize) -> Result<Self, IVPError>;
    fn c_tol(self, v: f32) -> Result<Self, IVPError>;
    fn c_max(self, v: f32) -> Result<Self, IVPError>;
    fn c_min(self, v: f32) -> Result<Self, IVPError>;
    fn c_start(self, v: f32) -> Result<Self, IVPError>;
    fn c_end(self, v: f32) -> Result<Self, IVPError>;
    fn c_ic_slice(self, y: &[N]) -> Result<Self, IVPError>;
    fn c_deriv(self, f: Deriv32<N, D>) -> Self;
    fn c_solve(self) -> Result<Self::Iter, IVPError>;
}

macro_rules! impl_as_called32 {
    ($($T:ident),*; $N:ty, $D:ty) => {$(
        impl AsCalled32<$N, $D> for $T<'static, $N, $D, (), Deriv32<$N, $D>> {
            type Iter = bacon_sci::ivp::IVPIterator<$D, <Self as IVPSolver<'static, $D>>::Solver>;
            fn c_new() -> Result<Self, IVPError> { Self::new() }
            fn c_new_dyn(n: usize) -> Result<Self, IVPError> { Self::new_dyn(n) }
            fn c_tol(self, v: f32) -> Result<Self, IVPError> { self.with_tolerance(v) }
            fn c_max(self, v: f32) -> Result<Self, IVPError> { self.with_maximum_dt(v) }
            fn c_min(self, v: f32) -> Result<Self, IVPError> { self.with_minimum_dt(v) }
            fn c_start(self, v: f32) -> Result<Self, IVPError> { self.with_initial_time(v) }
            fn c_end(self, v: f32) -> Result<Self, IVPError> { self.with_ending_time(v) }
            fn c_ic_slice(self, y: &[$N]) -> Result<Self, IVPError> { self.with_initial_conditions_slice(y) }
            fn c_deriv(self, f: Deriv32<$N, $D>) -> Self { self.with_derivative(f) }
            fn c_solve(self) -> Result<Self::Iter, IVPError> { self.solve(()) }
        }
    )*};
}

impl_as_called32!(Euler, RungeKutta45, RungeKutta23, Adams5, Adams3, BDF6, BDF2; f32, Const<1>);
impl_as_called32!(Euler, RungeKutta45, RungeKutta23, Adams5, Adams3, BDF6, BDF2; f32, Dyn);
impl_as_called32!(Euler, RungeKutta45, RungeKutta23, Adams5, Adams3, BDF6, BDF2; Complex<f32>, Const<1>);
impl_as_called32!(Euler, RungeKutta45, RungeKutta23, Adams5, Adams3, BDF6, BDF2; Complex<f32>, Dyn);

/// One case of the probe: which builder, and the chain (constructor first, `solve` implied).
#[derive(Clone, Debug, PartialEq)]
pub struct Case32 {
    pub kind: Kind,
    pub dynamic: bool,
    pub complex: bool,
    pub ops: Vec<BOp>,
}

#[derive(Clone, Debug)]
pub struct Mismatch32 {
    pub case: Case32,
    pub at: usize,
    pub got: Outcome,
    pub want: Expect,
}

pub fn alphabet32() -> Vec<BOp> {
    vec![
        BOp::Tol(1e-3),
        BOp::Tol(0.0),
        BOp::Tol(-0.0),
        BOp::Tol(-1e-3),
        // the smallest positive single-precision values are valid values
        BOp::Tol(f32::MIN_POSITIVE as f64),
        BOp::Max(0.5),
        BOp::Max(0.05),
        BOp::Max(0.0),
        BOp::Max(-0.5),
        BOp::Max(1.0e-45),
        BOp::Min(1e-3),
        BOp::Min(0.2),
        BOp::Min(0.0),
        BOp::Min(-0.0),
        BOp::Min(-1e-3),
        BOp::Start(0.0),
        BOp::Start(1.0),
        BOp::End(0.0),
        BOp::End(1.0),
        BOp::End(3.0),
        BOp::IcSlice,
        BOp::Deriv,
    ]
}

fn completion32(m: &Model) -> Vec<BOp> {
    let mut out = Vec::new();
    if !m.euler && !m.tol {
        out.push(BOp::Tol(1e-3));
    }
    if !m.max {
        out.push(BOp::Max(0.5));
    }
    if !m.euler && !m.min {
        out.push(BOp::Min(1e-3));
    }
    let start = match (m.start, m.end) {
        (Some(s), _) => s,
        (None, Some(e)) => {
            out.push(BOp::Start(e - 1.0));
            e - 1.0
        }
        (None, None) => {
            out.push(BOp::Start(0.0));
            0.0
        }
    };
    if m.end.is_none() {
        out.push(BOp::End(start + 1.0));
    }
    if !m.ic {
        out.push(BOp::IcSlice);
    }
    if !m.deriv {
        out.push(BOp::Deriv);
    }
    out
}

fn class(e: &IVPError) -> Outcome {
    Outcome::Err(ErrClass::of(e))
}

/// Replay one chain on the real builder S; the first disagreement with the model is returned.
fn eval32<S, N, D>(case: &Case32, n: usize, complete: bool, counts: &mut (u64, u64)) -> Option<Mismatch32>
where
    N: ComplexField<RealField = f32> + Copy + 'static,
    D: Dimension + 'static,
    DefaultAllocator: Allocator<N, D>,
    S: IVPSolver<'static, D, Error = IVPError, Field = N, RealField = f32, UserData = (), Derivative = Deriv32<N, D>> + AsCalled32<N, D>,
{
    let mut model = Model::new(case.kind.is_euler(), case.dynamic);
    let ctor = case.ops[0];
    let want = model.expect(&ctor);
    counts.0 += 1;
    let r = match ctor {
        BOp::New => S::c_new(),
        BOp::NewDyn(k) => S::c_new_dyn(k as usize),
        _ => return None,
    };
    let mut b = match r {
        Ok(b) => {
            if !want.admits(Outcome::Ok) {
                return Some(Mismatch32 { case: case.clone(), at: 0, got: Outcome::Ok, want });
            }
            model.commit(&ctor);
            b
        }
        Err(e) => {
            let got = class(&e);
            return if want.admits(got) { None } else { Some(Mismatch32 { case: case.clone(), at: 0, got, want }) };
        }
    };
    let mut ops: Vec<BOp> = case.ops[1..].to_vec();
    let given = ops.len();
    let mut i = 0;
    loop {
        if i == ops.len() {
            if complete && i == given {
                // the chain as given was accepted: append canonical values for what is missing
                ops.extend(completion32(&model));
                if i < ops.len() {
                    continue;
                }
            }
            break;
        }
        let op = ops[i];
        let want = model.expect(&op);
        counts.0 += 1;
        let y0: Vec<N> = (0..n).map(|j| N::from_real(1.0 + j as f32)).collect();
        let r = match op {
            BOp::Tol(v) => b.c_tol(v as f32),
            BOp::Max(v) => b.c_max(v as f32),
            BOp::Min(v) => b.c_min(v as f32),
            BOp::Start(v) => b.c_start(v as f32),
            BOp::End(v) => b.c_end(v as f32),
            BOp::IcSlice | BOp::IcVec => b.c_ic_slice(&y0),
            BOp::Deriv => Ok(b.c_deriv(Box::new(move |_t: f32, y: &[N], _d: &mut ()| {
                Ok(BVector::<N, D>::from_column_slice_generic(D::from_usize(y.len()), U1::from_usize(1), y))
            }))),
            _ => return None,
        };
        match r {
            Ok(nb) => {
                if !want.admits(Outcome::Ok) {
                    return Some(Mismatch32 { case: case.clone(), at: i + 1, got: Outcome::Ok, want });
                }
                model.commit(&op);
                b = nb;
            }
            Err(e) => {
                let got = class(&e);
                return if want.admits(got) { None } else { Some(Mismatch32 { case: case.clone(), at: i + 1, got, want }) };
            }
        }
        i += 1;
    }
    let want = model.expect(&BOp::Solve);
    counts.0 += 1;
    let got = match b.c_solve() {
        Ok(_) => {
            counts.1 += 1;
            Outcome::Ok
        }
        Err(e) => class(&e),
    };
    if want.admits(got) {
        None
    } else {
        Some(Mismatch32 { case: case.clone(), at: ops.len() + 1, got, want })
    }
}

macro_rules! by_kind32 {
    ($kind:expr, $N:ty, $D:ty, $case:expr, $n:expr, $complete:expr, $counts:expr) => {
        match $kind {
            Kind::Euler => eval32::<Euler<'static, $N, $D, (), Deriv32<$N, $D>>, $N, $D>($case, $n, $complete, $counts),
            Kind::Rk45 => eval32::<RungeKutta45<'static, $N, $D, (), Deriv32<$N, $D>>, $N, $D>($case, $n, $complete, $counts),
            Kind::Rk23 => eval32::<RungeKutta23<'static, $N, $D, (), Deriv32<$N, $D>>, $N, $D>($case, $n, $complete, $counts),
            Kind::Adams5 => eval32::<Adams5<'static, $N, $D, (), Deriv32<$N, $D>>, $N, $D>($case, $n, $complete, $counts),
            Kind::Adams3 => eval32::<Adams3<'static, $N, $D, (), Deriv32<$N, $D>>, $N, $D>($case, $n, $complete, $counts),
            Kind::Bdf6 => eval32::<BDF6<'static, $N, $D, (), Deriv32<$N, $D>>, $N, $D>($case, $n, $complete, $counts),
            Kind::Bdf2 => eval32::<BDF2<'static, $N, $D, (), Deriv32<$N, $D>>, $N, $D>($case, $n, $complete, $counts),
        }
    };
}

/// Evaluate one case; a panic is a mismatch too (B6).
pub fn eval_case(case: &Case32, complete: bool, counts: &mut (u64, u64)) -> Option<Mismatch32> {
    let r = catch_unwind(AssertUnwindSafe(|| {
        let mut c = (0u64, 0u64);
        let m = match (case.dynamic, case.complex) {
            (false, false) => by_kind32!(case.kind, f32, Const<1>, case, 1, complete, &mut c),
            (false, true) => by_kind32!(case.kind, Complex<f32>, Const<1>, case, 1, complete, &mut c),
            (true, false) => by_kind32!(case.kind, f32, Dyn, case, 2, complete, &mut c),
            (true, true) => by_kind32!(case.kind, Complex<f32>, Dyn, case, 2, complete, &mut c),
        };
        (m, c)
    }));
    match r {
        Ok((m, c)) => {
            counts.0 += c.0;
            counts.1 += c.1;
            m
        }
        Err(_) => Some(Mismatch32 { case: case.clone(), at: 0, got: Outcome::Panic, want: Expect::Ok }),
    }
}

/// The chain as it is, and then completed: the first disagreement of either.
pub fn eval_both(case: &Case32) -> Option<Mismatch32> {
    let mut counts = (0, 0);
    eval_case(case, false, &mut counts).or_else(|| eval_case(case, true, &mut counts))
}

pub struct Probe32Result {
    pub chains: u64,
    pub calls: u64,
    pub built: u64,
    pub mismatches: Vec<Mismatch32>,
}

/// Every chain of up to `maxlen` setters for one (kind, dynamic, complex).
pub fn run_unit(kind: Kind, dynamic: bool, complex: bool, maxlen: usize) -> Probe32Result {
    let a = alphabet32();
    let mut res = Probe32Result { chains: 0, calls: 0, built: 0, mismatches: Vec::new() };
    let good = if dynamic { BOp::NewDyn(2) } else { BOp::New };
    let bad = if dynamic { BOp::New } else { BOp::NewDyn(1) };
    let mut counts = (0u64, 0u64);
    // the mismatching constructor
    res.chains += 1;
    if let Some(m) = eval_case(&Case32 { kind, dynamic, complex, ops: vec![bad] }, false, &mut counts) {
        res.mismatches.push(m);
    }
    let mut idx: Vec<usize> = Vec::new();
    loop {
        let mut ops = vec![good];
        ops.extend(idx.iter().map(|i| a[*i]));
        res.chains += 1;
        let case = Case32 { kind, dynamic, complex, ops };
        // the chain as it is (solve() on the prefix: MissingParameters unless complete) ...
        res.chains += 1;
        if let Some(m) = eval_case(&case, false, &mut counts) {
            res.mismatches.push(m);
        }
        // ... and completed with canonical values, so that solve() builds
        if let Some(m) = eval_case(&case, true, &mut counts) {
            res.mismatches.push(m);
        }
        if res.mismatches.len() >= 4 {
            break;
        }
        // next index vector (all lengths 0..=maxlen, lexicographic)
        if idx.len() < maxlen {
            idx.push(0);
            continue;
        }
        loop {
            match idx.last_mut() {
                None => {
                    res.calls = counts.0;
                    res.built = counts.1;
                    return res;
                }
                Some(l) if *l + 1 < a.len() => {
                    *l += 1;
                    break;
                }
                Some(_) => {
                    idx.pop();
                }
            }
        }
    }
    res.calls = counts.0;
    res.built = counts.1;
    res
}

pub fn units() -> Vec<(Kind, bool, bool)> {
    let mut v = Vec::new();
    for kind in KINDS {
        for dynamic in [false, true] {
            for complex in [false, true] {
                v.push((kind, dynamic, complex));
            }
        }
    }
    v
}

// ---------------------------------------------------------------------------------------------
// replay documents

use crate::json::J;

impl Case32 {
    pub fn to_json(&self) -> J {
        J::obj(vec![
            ("solver", J::s(self.kind.name())),
            ("real_type", J::s(if self.complex { "Complex<f32>" } else { "f32" })),
            ("dimension", J::s(if self.dynamic { "Dyn(2)" } else { "Const<1>" })),
            ("ops", J::A(self.ops.iter().map(|o| o.to_json()).collect())),
        ])
    }
    pub fn from_json(j: &J) -> Result<Case32, String> {
        let kind = j.get("solver").and_then(|x| x.as_str()).and_then(Kind::from_name).ok_or("probe32: bad solver")?;
        let complex = j.get("real_type").and_then(|x| x.as_str()) == Some("Complex<f32>");
        let dynamic = j.get("dimension").and_then(|x| x.as_str()) == Some("Dyn(2)");
        let mut ops = Vec::new();
        for o in j.get("ops").and_then(|x| x.as_arr()).ok_or("probe32: no ops")? {
            ops.push(BOp::from_json(o)?);
        }
        if ops.is_empty() {
            return Err("probe32: empty chain".into());
        }
        Ok(Case32 { kind, dynamic, complex, ops })
    }
}

impl Mismatch32 {
    pub fn describe(&self) -> String {
        let what = if self.got == Outcome::Panic {
            "a call of this chain (the position of a panic is not recorded)".to_string()
        } else if self.at == 0 {
            "the constructor".to_string()
        } else if self.at >= self.case.ops.len() {
            format!("call {} (appended by the canonical completion, or solve)", self.at + 1)
        } else {
            format!("{} (call {} of the chain)", self.case.ops[self.at].tag(), self.at + 1)
        };
        format!(
            "{}<{}>: {} returned {} where the builder contract requires {}",
            self.case.kind.name(),
            if self.case.complex { "Complex<f32>" } else { "f32" },
            what,
            self.got.name(),
            self.want.name()
        )
    }
}

/// Drop calls while the chain still disagrees with the model somewhere.
pub fn minimise32(m: &Mismatch32) -> Mismatch32 {
    let mut cur = m.clone();
    let mut j = 1;
    while j < cur.case.ops.len() {
        let mut c = cur.case.clone();
        c.ops.remove(j);
        match eval_both(&c) {
            Some(m2) => cur = m2,
            None => j += 1,
        }
    }
    cur
}
