//! SplitMix64: the only source of randomness in the simulator.
//! Every choice of a run derives from `SplitMix64::new(mix(seed, run_index))`, so a run's
//! decisions do not depend on which worker executes it or on how many workers there are.

#[derive(Clone, Debug)]
pub struct SplitMix64(u64);

impl SplitMix64 {
    pub fn new(seed: u64) -> Self {
        SplitMix64(seed)
    }

    pub fn next_u64(&mut self) -> u64 {
        self.0 = self.0.wrapping_add(0x9E37_79B9_7F4A_7C15);
        let mut z = self.0;
        z = (z ^ (z >> 30)).wrapping_mul(0xBF58_476D_1CE4_E5B9);
        z = (z ^ (z >> 27)).wrapping_mul(0x94D0_49BB_1331_11EB);
        z ^ (z >> 31)
    }

    /// Uniform in `0..n` (n > 0). Modulo bias is irrelevant at the sizes used here.
    pub fn below(&mut self, n: u64) -> u64 {
        debug_assert!(n > 0);
        self.next_u64() % n
    }

    /// Uniform in `lo..=hi`.
    pub fn range(&mut self, lo: u64, hi: u64) -> u64 {
        lo + self.below(hi - lo + 1)
    }

    /// Uniform in [0, 1).
    pub fn unit(&mut self) -> f64 {
        (self.next_u64() >> 11) as f64 / (1u64 << 53) as f64
    }

    pub fn chance(&mut self, p: f64) -> bool {
        self.unit() < p
    }

    pub fn pick<'a, T>(&mut self, xs: &'a [T]) -> &'a T {
        &xs[self.below(xs.len() as u64) as usize]
    }

    /// Log-uniform in [lo, hi].
    pub fn log_uniform(&mut self, lo: f64, hi: f64) -> f64 {
        (lo.ln() + self.unit() * (hi.ln() - lo.ln())).exp()
    }
}

/// Combine a seed and an index into an independent stream seed.
pub fn mix(a: u64, b: u64) -> u64 {
    let mut s = SplitMix64::new(a ^ b.wrapping_mul(0xD6E8_FEB8_6659_FD93).rotate_left(23));
    s.next_u64() ^ b
}

/// FNV-1a, used for run fingerprints.
#[derive(Clone, Copy, Debug)]
pub struct Fnv(pub u64);

impl Default for Fnv {
    fn default() -> Self {
        Fnv(0xcbf2_9ce4_8422_2325)
    }
}

impl Fnv {
    #[inline]
    pub fn u8(&mut self, b: u8) {
        self.0 ^= b as u64;
        self.0 = self.0.wrapping_mul(0x0000_0100_0000_01B3);
    }
    #[inline]
    pub fn u64(&mut self, v: u64) {
        for b in v.to_le_bytes() {
            self.u8(b);
        }
    }
    pub fn bytes(&mut self, bs: &[u8]) {
        for &b in bs {
            self.u8(b);
        }
    }
}
