//! One simulated run: builders driven by the simulated caller and compared with the model,
//! iterators driven by the simulated consumer, the derivative stub injecting the planned faults,
//! and the oracles F1–F5 / B1–B7 judged online. `execute` is a pure function of the `RunSpec`.

use crate::inst::{construct, ErasedBuilder, ErasedIter, Item, StubHooks};
use crate::json::J;
use crate::model::{ErrClass, Expect, Model, Outcome};
use crate::prng::{Fnv, SplitMix64};
use crate::spec::{BOp, Drive, FaultPlan, InstSpec, Payload, Problem, RunSpec};
use crate::stub::{make_payload, scan_error, tag_inst, tag_of, HarnessAbort};
use bacon_sci::ivp::UserError;
use std::cell::{Cell, RefCell};
use std::panic::{catch_unwind, AssertUnwindSafe};
use std::rc::Rc;

/// Watchdog bookkeeping: which run every worker thread is executing and since when, so that a
/// run that never returns (a loop inside the crate that makes no derivative call, which no
/// budget of the stub can end) is reported instead of hanging the check. Wall-clock time is read
/// only here and decides nothing about any run that does terminate.
pub mod watch {
    use super::Budget;
    use crate::spec::RunSpec;
    use std::sync::atomic::{AtomicBool, AtomicU64, AtomicUsize, Ordering};
    use std::sync::Mutex;
    use std::time::Instant;

    pub struct Slot {
        /// milliseconds since process start at which the current top-level run began; 0 = idle
        pub started_ms: AtomicU64,
        pub fired: AtomicBool,
        pub spec: Mutex<Option<(RunSpec, Vec<Budget>)>>,
        pub beat: AtomicU64,
        pub in_fast: AtomicBool,
    }

    pub const SLOTS: usize = 256;
    static NEXT: AtomicUsize = AtomicUsize::new(0);
    static T0: Mutex<Option<Instant>> = Mutex::new(None);

    pub fn slots() -> &'static Vec<Slot> {
        static REG: std::sync::OnceLock<Vec<Slot>> = std::sync::OnceLock::new();
        REG.get_or_init(|| {
            (0..SLOTS)
                .map(|_| Slot {
                    started_ms: AtomicU64::new(0),
                    fired: AtomicBool::new(false),
                    spec: Mutex::new(None),
                    beat: AtomicU64::new(0),
                    in_fast: AtomicBool::new(false),
                })
                .collect()
        })
    }

    pub fn now_ms() -> u64 {
        let mut g = T0.lock().unwrap();
        let t0 = *g.get_or_insert_with(Instant::now);
        t0.elapsed().as_millis() as u64 + 1
    }

    thread_local! {
        static MY_SLOT: usize = NEXT.fetch_add(1, Ordering::Relaxed) % SLOTS;
        pub static DEPTH: std::cell::Cell<u32> = const { std::cell::Cell::new(0) };
    }

    pub fn enter(spec: &RunSpec, budgets: &[Budget]) {
        let d = DEPTH.with(|d| {
            let v = d.get();
            d.set(v + 1);
            v
        });
        if d == 0 {
            MY_SLOT.with(|i| {
                let s = &slots()[*i];
                *s.spec.lock().unwrap() = Some((spec.clone(), budgets.to_vec()));
                s.fired.store(false, Ordering::Relaxed);
                s.started_ms.store(now_ms(), Ordering::Release);
            });
        }
    }

    pub fn leave() {
        let d = DEPTH.with(|d| {
            let v = d.get().saturating_sub(1);
            d.set(v);
            v
        });
        if d == 0 {
            MY_SLOT.with(|i| slots()[*i].started_ms.store(0, Ordering::Release));
        }
    }

    pub fn note_fired() {
        MY_SLOT.with(|i| slots()[*i].fired.store(true, Ordering::Relaxed));
    }

    /// The consumer (or the builder caller) turns to another instance: from now on `fired`
    /// says whether a fault of *that* instance has fired. Returns the previous value so that a
    /// nested poll can restore it.
    pub fn driving(fired: bool) -> bool {
        MY_SLOT.with(|i| slots()[*i].fired.swap(fired, Ordering::Relaxed))
    }

    /// Progress counter of the builder fast path (no top-level run there to time): one tick
    /// per chain. The watchdog reports a worker whose counter stands still while it is inside
    /// the fast path.
    pub fn fast_enter() {
        MY_SLOT.with(|i| {
            let s = &slots()[*i];
            s.beat.fetch_add(1, Ordering::Relaxed);
            s.in_fast.store(true, Ordering::Release);
        });
    }
    pub fn fast_leave() {
        MY_SLOT.with(|i| slots()[*i].in_fast.store(false, Ordering::Release));
    }
    #[inline]
    pub fn beat() {
        MY_SLOT.with(|i| slots()[*i].beat.fetch_add(1, Ordering::Relaxed));
    }

    /// What the calling thread is doing right now, for the handler of a process abort (an
    /// allocation failure inside the crate aborts, it does not unwind): (inside a top-level run?,
    /// fault fired in the instance being driven?, the run).
    pub fn current() -> (bool, bool, Option<(RunSpec, Vec<Budget>)>) {
        MY_SLOT.with(|i| {
            let s = &slots()[*i];
            let inside = s.started_ms.load(Ordering::Acquire) != 0;
            let fired = s.fired.load(Ordering::Relaxed);
            let spec = s.spec.try_lock().ok().and_then(|g| g.clone());
            (inside, fired, spec)
        })
    }

    /// Violations found so far by any worker, as ready-to-write replay documents: if a run that
    /// C06 does not speak about hangs the process, they are reported before it exits.
    pub static PENDING: Mutex<Vec<(String, String)>> = Mutex::new(Vec::new());
}

/// Budgets of one instance. They are part of what decides a run, so they travel with the spec.
#[derive(Clone, Copy, Debug, PartialEq, Eq)]
pub struct Budget {
    /// derivative calls after which the stub aborts the run
    pub max_calls: u64,
    /// `next()` calls after which the consumer stops polling
    pub max_polls: u64,
}

impl Budget {
    pub const REFERENCE: Budget = Budget { max_calls: 60_000, max_polls: 60_000 };
}

#[derive(Clone, Debug)]
pub enum PollRet {
    Ok(f64),
    Err(ErrClass, Vec<u64>),
    None,
    Panic(String),
    Abort,
}

#[derive(Clone, Debug)]
pub enum Event {
    Builder { inst: u32, op: BOp, outcome: Outcome, expect: Expect },
    Bounds { inst: u32, min: Option<f64>, max: Option<f64> },
    Deriv { inst: u32, call: u64, t: f64, fail: Option<u64> },
    Poll { inst: u32, poll: u64, ret: PollRet },
    Collect { inst: u32, mode: &'static str, ok_items: Option<u64>, ret: PollRet },
}

impl Event {
    /// `anon`: leave out everything that depends on the position of the instance in the run
    /// (instance number, instance bits of fault tags), so that the per-instance fingerprint of
    /// an instance is the same alone and next to others.
    fn hash(&self, h: &mut Fnv, anon: bool) {
        let id = |i: &u32| if anon { 0u64 } else { *i as u64 };
        let tg = |t: u64| if anon { crate::stub::tag_call(t) } else { t };
        match self {
            Event::Builder { inst, op, outcome, .. } => {
                h.u8(1);
                h.u64(id(inst));
                h.u8(op.code());
                h.u64(op.arg_bits());
                h.u8(outcome.code());
            }
            Event::Bounds { inst, min, max } => {
                h.u8(2);
                h.u64(id(inst));
                h.u64(min.map(|v| v.to_bits()).unwrap_or(1));
                h.u64(max.map(|v| v.to_bits()).unwrap_or(1));
            }
            Event::Deriv { inst, call, t, fail } => {
                h.u8(3);
                h.u64(id(inst));
                h.u64(*call);
                h.u64(t.to_bits());
                h.u64(fail.map(tg).unwrap_or(0));
            }
            Event::Poll { inst, poll, ret } => {
                h.u8(4);
                h.u64(id(inst));
                h.u64(*poll);
                hash_ret(ret, h, anon);
            }
            Event::Collect { inst, mode, ok_items, ret } => {
                h.u8(5);
                h.u64(id(inst));
                h.bytes(mode.as_bytes());
                h.u64(ok_items.unwrap_or(u64::MAX));
                hash_ret(ret, h, anon);
            }
        }
    }

    pub fn inst(&self) -> u32 {
        match self {
            Event::Builder { inst, .. }
            | Event::Bounds { inst, .. }
            | Event::Deriv { inst, .. }
            | Event::Poll { inst, .. }
            | Event::Collect { inst, .. } => *inst,
        }
    }

    pub fn to_json(&self, seq: u64) -> J {
        let ret_json = |r: &PollRet| match r {
            PollRet::Ok(t) => J::obj(vec![("Ok_t", J::F(*t))]),
            PollRet::Err(c, tags) => J::obj(vec![
                ("Err", J::s(c.name())),
                ("tags", J::A(tags.iter().map(|t| J::S(format!("{:016x}", t))).collect())),
            ]),
            PollRet::None => J::s("None"),
            PollRet::Panic(m) => J::obj(vec![("panic", J::S(m.clone()))]),
            PollRet::Abort => J::s("budget-abort"),
        };
        match self {
            Event::Builder { inst, op, outcome, expect } => J::obj(vec![
                ("seq", J::U(seq)),
                ("ev", J::s("builder")),
                ("inst", J::U(*inst as u64)),
                ("op", op.to_json()),
                ("returned", J::S(outcome.name())),
                ("model", J::S(expect.name())),
            ]),
            Event::Bounds { inst, min, max } => J::obj(vec![
                ("seq", J::U(seq)),
                ("ev", J::s("dt_bounds")),
                ("inst", J::U(*inst as u64)),
                ("min", min.map(J::F).unwrap_or(J::Null)),
                ("max", max.map(J::F).unwrap_or(J::Null)),
            ]),
            Event::Deriv { inst, call, t, fail } => J::obj(vec![
                ("seq", J::U(seq)),
                ("ev", J::s("deriv")),
                ("inst", J::U(*inst as u64)),
                ("call", J::U(*call)),
                ("t", J::F(*t)),
                ("returned", match fail {
                    None => J::s("Ok"),
                    Some(tag) => J::S(format!("Err(simfault:{:016x})", tag)),
                }),
            ]),
            Event::Poll { inst, poll, ret } => J::obj(vec![
                ("seq", J::U(seq)),
                ("ev", J::s("next")),
                ("inst", J::U(*inst as u64)),
                ("poll", J::U(*poll)),
                ("returned", ret_json(ret)),
            ]),
            Event::Collect { inst, mode, ok_items, ret } => J::obj(vec![
                ("seq", J::U(seq)),
                ("ev", J::S(mode.to_string())),
                ("inst", J::U(*inst as u64)),
                ("ok_items", ok_items.map(J::U).unwrap_or(J::Null)),
                ("returned", ret_json(ret)),
            ]),
        }
    }
}

fn hash_ret(ret: &PollRet, h: &mut Fnv, anon: bool) {
    match ret {
        PollRet::Ok(t) => {
            h.u8(1);
            h.u64(t.to_bits());
        }
        PollRet::Err(c, tags) => {
            h.u8(2);
            h.u8(c.code());
            for t in tags {
                h.u64(if anon { crate::stub::tag_call(*t) } else { *t });
            }
        }
        PollRet::None => h.u8(3),
        PollRet::Panic(_) => h.u8(4),
        PollRet::Abort => h.u8(5),
    }
}

#[derive(Clone, Debug)]
pub struct Violation {
    /// violation class, stable across minimisation
    pub class: &'static str,
    pub inst: u32,
    pub detail: String,
}

/// The event log of a run: a global sequence number, a running fingerprint, and (only when
/// recording) the events themselves. Logging never draws from the PRNG or reads a clock.
pub struct RunLog {
    pub seq: u64,
    pub fp: Fnv,
    pub inst_fp: Vec<Fnv>,
    pub events: Option<Vec<Event>>,
    keep_tail: usize,
}

impl RunLog {
    fn push(&mut self, e: Event) {
        self.seq += 1;
        e.hash(&mut self.fp, false);
        let i = e.inst() as usize;
        if i < self.inst_fp.len() {
            e.hash(&mut self.inst_fp[i], true);
        }
        if let Some(v) = self.events.as_mut() {
            v.push(e);
            if self.keep_tail > 0 && v.len() > 2 * self.keep_tail {
                let cut = v.len() - self.keep_tail;
                v.drain(..cut);
            }
        }
    }
}

struct Ctx {
    log: RefCell<RunLog>,
    violation: RefCell<Option<Violation>>,
}

impl Ctx {
    fn violate(&self, class: &'static str, inst: u32, detail: String) {
        let mut v = self.violation.borrow_mut();
        if v.is_none() {
            *v = Some(Violation { class, inst, detail });
        }
    }
    fn violated(&self) -> bool {
        self.violation.borrow().is_some()
    }
}

/// How an instance's iteration ended.
#[derive(Clone, Copy, Debug, PartialEq, Eq, Hash)]
pub enum EndedBy {
    /// never got an iterator (a builder call was rejected, or no `solve`)
    NotBuilt,
    /// `None` with no `Err` item before it
    Done,
    /// an `Err` item carrying a fault of the simulator
    UserErr,
    /// an `Err` item of the solver itself, before any fault fired
    SolverErr(ErrClass),
    /// call or poll budget exhausted before any fault fired
    Budget,
    /// a panic before any fault fired (outside C06; counted, not judged)
    PanicNoFault,
    /// a violation stopped the run
    Violation,
}

#[derive(Clone, Debug)]
pub struct InstSummary {
    pub built: bool,
    pub calls: u64,
    pub polls: u64,
    pub ok_items: u64,
    pub ended_by: EndedBy,
    pub fired: u64,
    pub first_fired_call: Option<u64>,
    /// poll number during which the first fault fired (0 = during a collect)
    pub first_fired_poll: Option<u64>,
    /// derivative calls made after the first failing call
    pub calls_after_fire: u64,
    /// Ok items handed out between the failing call and the Err item
    pub ok_after_fire: u64,
    pub extra_none: u64,
    pub extra_some_after_done: u64,
    /// items (Ok or Err) handed out after the solver's own error, no fault involved (not judged)
    pub after_own_err: u64,
    pub own_err_after_fault: u64,
    pub surfaced_not_first: bool,
    pub not_in_source_chain: bool,
    pub builder_calls: u64,
    pub builder_rejected: Option<(u8, ErrClass)>,
    pub hook_reads: u64,
    pub solver_reads: u64,
    pub builder_inverted: bool,
    /// the built solver's own bounds were inverted (judged only together with the builder's)
    pub solver_inverted: bool,
    /// cumulative derivative-call count after each poll (only when requested)
    pub poll_calls: Vec<u32>,
    /// 0 = Ok item, 1 = None, 2 = Err
    pub poll_kinds: Vec<u8>,
    /// (time argument, largest state modulus) of every derivative call (only with `rec_polls`)
    pub call_args: Vec<(f64, f64)>,
    /// what next() returned, call after call (only when requested)
    pub items: Vec<ItemRec>,
    pub adapter_mismatch_no_fault: bool,
    pub fp: u64,
}

pub struct RunResult {
    pub violation: Option<Violation>,
    pub fp: u64,
    pub events: Option<Vec<Event>>,
    pub first_seq_kept: u64,
    pub insts: Vec<InstSummary>,
}

struct StubShared {
    inst: u32,
    calls: u64,
    plan: FaultPlan,
    payload: Payload,
    problem: Problem,
    fired: Vec<u64>,
    max_calls: u64,
    nested_every: u32,
    nested_target: Option<Rc<InstRt>>,
    cur_poll: u64,
    first_fired_poll: Option<u64>,
    /// record (time argument, largest state modulus) of every call (reference runs)
    rec_calls: bool,
    call_args: Vec<(f64, f64)>,
}

struct Hooks {
    s: Rc<RefCell<StubShared>>,
    ctx: Rc<Ctx>,
}

impl StubHooks for Hooks {
    fn on_call(&self, t: f64, ymax: f64) -> Option<UserError> {
        let (inst, call, fail, nested, abort, payload) = {
            let mut s = self.s.borrow_mut();
            s.calls += 1;
            let call = s.calls;
            let abort = call > s.max_calls;
            if s.rec_calls && s.call_args.len() < 100_000 {
                s.call_args.push((t, ymax));
            }
            let fail = if !abort && s.plan.fails(call, t, ymax) {
                let tag = tag_of(s.inst, call);
                s.fired.push(tag);
                watch::note_fired();
                if s.first_fired_poll.is_none() {
                    s.first_fired_poll = Some(s.cur_poll);
                }
                Some(tag)
            } else {
                None
            };
            let nested = if s.nested_every > 0 && call % s.nested_every as u64 == 0 {
                s.nested_target.clone()
            } else {
                None
            };
            (s.inst, call, fail, nested, abort, s.payload)
        };
        if abort {
            std::panic::panic_any(HarnessAbort);
        }
        self.ctx.log.borrow_mut().push(Event::Deriv { inst, call, t, fail });
        if let Some(target) = nested {
            // a derivative that itself advances another solver: the neighbour is polled from
            // inside this instance's step
            if !target.done_driving.get() && !self.ctx.violated() {
                let prev = watch::driving(!target.stub.borrow().fired.is_empty());
                poll_once(&target, &self.ctx);
                watch::driving(prev);
            }
        }
        fail.map(|tag| make_payload(payload, tag))
    }
    fn problem(&self) -> Problem {
        self.s.borrow().problem
    }
}

/// Run-time state of one instance.
struct InstRt {
    idx: u32,
    payload: Payload,
    iter: RefCell<Option<Box<dyn ErasedIter>>>,
    stub: Rc<RefCell<StubShared>>,
    o: RefCell<Oracle>,
    done_driving: Cell<bool>,
    max_polls: u64,
    extra_polls: u64,
    rec_polls: bool,
    rec_items: bool,
    /// `PollThenWalk`: the internal-iteration method has been run on the ended iterator
    walked_after_end: Cell<bool>,
    /// for adapter drives: the item sequence of a next()-driven shadow run of this instance
    shadow: Option<Vec<ItemRec>>,
    cursor: Cell<usize>,
    /// a by-value collect_vec() returned an error of the solver itself while a fired fault was
    /// pending: (class of that error, number of items taken by next() before the collect)
    collect_own_err: Cell<Option<(ErrClass, u64)>>,
}

#[derive(Default)]
struct Oracle {
    adapter_mismatch_no_fault: bool,
    items: Vec<ItemRec>,
    polls: u64,
    ok_items: u64,
    /// an `Err` item has been yielded (of any kind): the consumer treats the iteration as over
    err_seen: bool,
    /// number of `Err` items handed out so far
    errs_yielded: u64,
    /// an `Err` item has been yielded while a fault of this instance had fired: from here on
    /// C06 demands `None` for ever. An `Err` of the solver itself with no fault fired (which
    /// C06 does not speak about) sets `err_seen` only.
    user_err_seen: bool,
    /// items handed out after the solver's own error with no fault involved (counted only)
    after_own_err: u64,
    /// errors of the solver itself handed out while a fired fault was still pending
    own_err_after_fault: u64,
    /// ... and where: (number of items / polls so far, class)
    own_after_fault_at: Vec<(u64, ErrClass)>,
    done_seen: bool,
    ended_by: Option<EndedBy>,
    polls_after_end: u64,
    extra_none: u64,
    extra_some_after_done: u64,
    ok_after_fire: u64,
    surfaced_not_first: bool,
    not_in_source_chain: bool,
    poll_calls: Vec<u32>,
    poll_kinds: Vec<u8>,
}

fn panic_msg(p: &Box<dyn std::any::Any + Send>) -> String {
    if let Some(s) = p.downcast_ref::<&str>() {
        s.to_string()
    } else if let Some(s) = p.downcast_ref::<String>() {
        s.clone()
    } else {
        "<non-string panic payload>".to_string()
    }
}

/// Judge an `Err` item (or an `Err` returned by a collect) against the faults fired so far.
fn judge_err(rt: &InstRt, ctx: &Ctx, e: &bacon_sci::ivp::IVPError, o: &mut Oracle) -> PollRet {
    let class = ErrClass::of(e);
    let found = scan_error(e);
    let tags = found.all_tags();
    let fired: Vec<u64> = rt.stub.borrow().fired.clone();
    let foreign: Vec<u64> = tags.iter().copied().filter(|t| tag_inst(*t) != rt.idx).collect();
    o.errs_yielded += 1;
    if o.user_err_seen {
        ctx.violate(
            "second-err",
            rt.idx,
            format!("a second Err item ({}) was yielded after the iterator had already yielded the Err of a failing derivative call", class.name()),
        );
        return PollRet::Err(class, tags);
    }
    if o.err_seen {
        // an earlier Err was the solver's own, with no fault fired: what follows it is outside C06
        o.after_own_err += 1;
    }
    o.err_seen = true;
    if !foreign.is_empty() {
        ctx.violate(
            "cross-talk",
            rt.idx,
            format!("Err item of instance {} carries a fault of instance {}", rt.idx, tag_inst(foreign[0])),
        );
        return PollRet::Err(class, tags);
    }
    if fired.is_empty() {
        // the solver's own error; C06 says nothing about it, nor about what follows it
        if o.ended_by.is_none() {
            o.ended_by = Some(EndedBy::SolverErr(class));
        }
        return PollRet::Err(class, tags);
    }
    if class != ErrClass::User && tags.is_empty() && found.status.is_empty() && !found.unit && !found.nested {
        // An error of the solver itself with no trace of any fault in it. A fault has fired, but
        // this item may have been computed before the failing call and handed out after it (an
        // iterator that works ahead of its consumer), so by itself it proves nothing: it does
        // not arm the "nothing more" rule and it does not count as the surfaced error. If the
        // user's error never comes out, the run ends as `not-surfaced` (judge_none, the budgets,
        // and update_driving keeps polling while a fired fault is pending).
        o.own_err_after_fault += 1;
        o.own_after_fault_at.push((o.polls, class));
        if o.ended_by.is_none() {
            o.ended_by = Some(EndedBy::SolverErr(class));
        }
        return PollRet::Err(class, tags);
    }
    o.user_err_seen = true;
    // "carrying that error": the Err item is the UserError variant and the boxed error it holds
    // is the very object the derivative returned (any of the failing calls made so far)
    let direct = match e {
        bacon_sci::ivp::IVPError::UserError(b) => fired.iter().position(|t| crate::stub::is_original(b.as_ref(), rt.payload, *t)),
        _ => None,
    };
    let reachable = fired.iter().any(|t| found.carries(rt.payload, *t));
    match direct {
        Some(i) => {
            o.ended_by = Some(EndedBy::UserErr);
            if i != 0 {
                // the derivative had already failed at an earlier call: that error ends the
                // iteration; surfacing a later one means the first was passed over and the
                // user's function was called again after it had failed
                o.surfaced_not_first = true;
                ctx.violate(
                    "wrong-error",
                    rt.idx,
                    format!(
                        "the Err item carries the error the derivative returned at call {}, but the derivative had already returned Err at call {} ({} failing calls were made before anything was surfaced)",
                        crate::stub::tag_call(fired[i]),
                        crate::stub::tag_call(fired[0]),
                        fired.len()
                    ),
                );
            }
            if !reachable {
                // held by the variant but not part of the item's source() chain: recorded only.
                // How IVPError implements Error::source is not something C06 speaks about.
                o.not_in_source_chain = true;
            }
        }
        None => {
            if reachable {
                ctx.violate(
                    "payload-wrapped",
                    rt.idx,
                    format!(
                        "the Err item ({}) does not hold the {} error object returned by the derivative at call {} but something that wraps it (it is reachable only through source()); a caller matching IVPError::UserError(e) and downcasting e no longer finds its error",
                        class.name(),
                        rt.payload.name(),
                        crate::stub::tag_call(fired[0])
                    ),
                );
            } else if fired.iter().any(|t| found.text.contains(t)) {
                ctx.violate(
                    "payload-lost",
                    rt.idx,
                    format!(
                        "the Err item ({}) mentions the fault only as text; the {} error object returned by the derivative is no longer reachable from it",
                        class.name(),
                        rt.payload.name()
                    ),
                );
            } else if class != ErrClass::User {
                ctx.violate(
                    "wrong-error",
                    rt.idx,
                    format!(
                        "the derivative returned Err at call {} but the iterator yielded Err({}) which does not carry it",
                        crate::stub::tag_call(fired[0]),
                        class.name()
                    ),
                );
            } else {
                ctx.violate(
                    "payload-lost",
                    rt.idx,
                    format!(
                        "the iterator yielded a UserError that does not carry the error returned by the derivative at call {}",
                        crate::stub::tag_call(fired[0])
                    ),
                );
            }
        }
    }
    PollRet::Err(class, tags)
}

fn judge_ok(rt: &InstRt, ctx: &Ctx, o: &mut Oracle) {
    if o.user_err_seen {
        ctx.violate(
            "item-after-err",
            rt.idx,
            "an Ok item was yielded after the iterator had yielded the Err of a failing derivative call".to_string(),
        );
    } else if o.err_seen {
        o.after_own_err += 1;
    }
    o.ok_items += 1;
    if o.done_seen {
        o.extra_some_after_done += 1;
    }
    if !rt.stub.borrow().fired.is_empty() {
        o.ok_after_fire += 1;
    }
}

fn judge_none(rt: &InstRt, ctx: &Ctx, o: &mut Oracle) {
    if !o.user_err_seen && !rt.stub.borrow().fired.is_empty() {
        let s = rt.stub.borrow();
        ctx.violate(
            "not-surfaced",
            rt.idx,
            format!(
                "the derivative returned Err at call {} ({} failing call(s) in total) but the iterator ended with None without ever yielding an Err",
                crate::stub::tag_call(s.fired[0]),
                s.fired.len()
            ),
        );
    }
    if o.ended_by.is_none() {
        o.ended_by = Some(EndedBy::Done);
    }
    o.done_seen = true;
}

fn handle_panic(rt: &InstRt, ctx: &Ctx, o: &mut Oracle, p: Box<dyn std::any::Any + Send>) -> PollRet {
    let fired = !rt.stub.borrow().fired.is_empty();
    if p.downcast_ref::<HarnessAbort>().is_some() {
        if fired && !o.user_err_seen {
            ctx.violate(
                "not-surfaced",
                rt.idx,
                format!(
                    "the derivative returned Err at call {} but the solver kept calling it until the call budget ({}) was exhausted without yielding an Err",
                    crate::stub::tag_call(rt.stub.borrow().fired[0]),
                    rt.stub.borrow().max_calls
                ),
            );
        } else if o.user_err_seen {
            ctx.violate(
                "item-after-err",
                rt.idx,
                format!(
                    "after the iterator had yielded its Err, a further next() kept calling the derivative until the call budget ({}) was exhausted instead of returning None",
                    rt.stub.borrow().max_calls
                ),
            );
        } else if o.ended_by.is_none() {
            o.ended_by = Some(EndedBy::Budget);
        }
        rt.done_driving.set(true);
        return PollRet::Abort;
    }
    let msg = panic_msg(&p);
    if fired && !o.user_err_seen {
        ctx.violate(
            "panic",
            rt.idx,
            format!("the derivative returned Err and the solver panicked instead of yielding it: {}", msg),
        );
    } else if o.user_err_seen {
        ctx.violate(
            "panic",
            rt.idx,
            format!("next() panicked after the iterator had yielded an Err: {}", msg),
        );
    } else if o.done_seen && !o.err_seen {
        // "repeated next() calls after completion": what they return is not judged, but a
        // caller polling a finished iterator again must not be brought down
        ctx.violate(
            "panic-after-completion",
            rt.idx,
            format!("the iterator had completed (returned None) and panicked when polled again: {}", msg),
        );
    } else if o.ended_by.is_none() {
        o.ended_by = Some(EndedBy::PanicNoFault);
    }
    rt.done_driving.set(true);
    PollRet::Panic(msg)
}

/// After every action: has this instance been driven as far as the plan says?
fn update_driving(rt: &InstRt, ctx: &Ctx, o: &mut Oracle) {
    if o.err_seen || o.done_seen {
        // a fault has fired and its Err has not come out yet, and the iterator has not said None:
        // the consumer keeps polling (the poll budget ends this)
        let pending = !o.done_seen && !o.user_err_seen && !rt.stub.borrow().fired.is_empty();
        if !pending && o.polls_after_end >= rt.extra_polls {
            rt.done_driving.set(true);
        }
    }
    if o.polls >= rt.max_polls && !rt.done_driving.get() {
        let s = rt.stub.borrow();
        if !s.fired.is_empty() && !o.user_err_seen {
            // F2-budget: the faulty run is identical to the reference run up to the failing
            // call, so it may not need more polls than the reference run plus the slack
            ctx.violate(
                "not-surfaced",
                rt.idx,
                format!(
                    "the derivative returned Err at call {} but no Err item was yielded within the poll budget ({})",
                    crate::stub::tag_call(s.fired[0]),
                    rt.max_polls
                ),
            );
        } else if o.ended_by.is_none() {
            o.ended_by = Some(EndedBy::Budget);
        }
        rt.done_driving.set(true);
    }
}

/// One `next()` call on an instance, judged.
fn poll_once(rt: &Rc<InstRt>, ctx: &Rc<Ctx>) {
    let mut guard = match rt.iter.try_borrow_mut() {
        Ok(g) => g,
        Err(_) => return, // re-entrant use of the same instance: not generated
    };
    let it = match guard.as_mut() {
        Some(it) => it,
        None => return,
    };
    let poll_no = {
        let mut o = rt.o.borrow_mut();
        o.polls += 1;
        o.polls
    };
    rt.stub.borrow_mut().cur_poll = poll_no;
    let r = catch_unwind(AssertUnwindSafe(|| it.poll()));
    drop(guard);
    let mut o = rt.o.borrow_mut();
    let was_ended = o.err_seen || o.done_seen;
    let ret = match r {
        Ok(Some(Item::Ok { t, .. })) => {
            judge_ok(rt, ctx, &mut o);
            PollRet::Ok(t)
        }
        Ok(Some(Item::Err(e))) => judge_err(rt, ctx, &e, &mut o),
        Ok(None) => {
            if was_ended {
                o.extra_none += 1;
            }
            judge_none(rt, ctx, &mut o);
            PollRet::None
        }
        Err(p) => handle_panic(rt, ctx, &mut o, p),
    };
    if was_ended {
        o.polls_after_end += 1;
    }
    if rt.rec_items {
        let r = rec_of(&ret);
        o.items.push(r);
    }
    if rt.rec_polls {
        let calls = rt.stub.borrow().calls;
        o.poll_calls.push(calls.min(u32::MAX as u64) as u32);
        o.poll_kinds.push(match ret {
            PollRet::Ok(_) => 0,
            PollRet::None => 1,
            _ => 2,
        });
    }
    update_driving(rt, ctx, &mut o);
    drop(o);
    ctx.log.borrow_mut().push(Event::Poll { inst: rt.idx, poll: poll_no, ret });
}

/// `by_ref().collect()` or `collect_vec()`, judged as "some Ok items, then None or one Err".
fn collect_once(rt: &Rc<InstRt>, ctx: &Rc<Ctx>, consume: bool) {
    let mode: &'static str = if consume { "collect_vec" } else { "by_ref_collect" };
    rt.stub.borrow_mut().cur_poll = 0;
    let r = if consume {
        let it = match rt.iter.borrow_mut().take() {
            Some(it) => it,
            None => return,
        };
        catch_unwind(AssertUnwindSafe(move || it.collect_vec()))
    } else {
        let mut guard = rt.iter.borrow_mut();
        let it = match guard.as_mut() {
            Some(it) => it,
            None => return,
        };
        catch_unwind(AssertUnwindSafe(|| it.by_ref_collect()))
    };
    let mut o = rt.o.borrow_mut();
    let pending_before = o.own_err_after_fault;
    let polls_before = o.polls;
    let at_before = o.own_after_fault_at.len();
    let (ok_items, ret) = match r {
        Ok(Ok(n)) => {
            if o.user_err_seen && n > 0 {
                ctx.violate(
                    "item-after-err",
                    rt.idx,
                    format!("{} returned {} further Ok item(s) from an iterator that had already yielded the Err of a failing derivative call", mode, n),
                );
            } else if o.err_seen {
                o.after_own_err += n as u64;
            }
            if o.done_seen && n > 0 {
                o.extra_some_after_done += n as u64;
            }
            o.ok_items += n as u64;
            judge_none(rt, ctx, &mut o);
            (Some(n as u64), PollRet::None)
        }
        Ok(Err(e)) => (None, judge_err(rt, ctx, &e, &mut o)),
        Err(p) => (None, handle_panic(rt, ctx, &mut o, p)),
    };
    // a collect swallows an unknown number of items before its error: the position recorded by
    // judge_err means nothing here (the post-run comparison with a next()-driven run covers it)
    o.own_after_fault_at.truncate(at_before);
    if consume {
        // The iterator is gone. If what came back is an error of the solver itself although a
        // fault has fired, nobody can poll on to see whether the user's error would follow: the
        // question "is this the first error of the iteration?" is settled after the run against
        // a next()-driven run of the same instance (execute_inner).
        if o.own_err_after_fault > pending_before && !o.user_err_seen {
            if let PollRet::Err(c, _) = &ret {
                rt.collect_own_err.set(Some((*c, polls_before)));
            }
        }
        rt.done_driving.set(true);
    } else {
        update_driving(rt, ctx, &mut o);
    }
    drop(o);
    ctx.log.borrow_mut().push(Event::Collect { inst: rt.idx, mode, ok_items, ret });
}

/// `it.nth(0)` instead of `it.next()`: same contract, different trait method.
fn nth_once(rt: &Rc<InstRt>, ctx: &Rc<Ctx>) {
    let mut guard = match rt.iter.try_borrow_mut() {
        Ok(g) => g,
        Err(_) => return,
    };
    let it = match guard.as_mut() {
        Some(it) => it,
        None => return,
    };
    let poll_no = {
        let mut o = rt.o.borrow_mut();
        o.polls += 1;
        o.polls
    };
    rt.stub.borrow_mut().cur_poll = poll_no;
    let r = catch_unwind(AssertUnwindSafe(|| it.nth0()));
    drop(guard);
    let mut o = rt.o.borrow_mut();
    let was_ended = o.err_seen || o.done_seen;
    let ret = match r {
        Ok(Some(Item::Ok { t, .. })) => {
            judge_ok(rt, ctx, &mut o);
            PollRet::Ok(t)
        }
        Ok(Some(Item::Err(e))) => judge_err(rt, ctx, &e, &mut o),
        Ok(None) => {
            if was_ended {
                o.extra_none += 1;
            }
            judge_none(rt, ctx, &mut o);
            PollRet::None
        }
        Err(p) => handle_panic(rt, ctx, &mut o, p),
    };
    if was_ended {
        o.polls_after_end += 1;
    }
    update_driving(rt, ctx, &mut o);
    drop(o);
    ctx.log.borrow_mut().push(Event::Poll { inst: rt.idx, poll: poll_no, ret });
}

/// After the end: `it.nth(m)` instead of `it.next()`. After an `Err` it must return `None`.
fn nth_after_end(rt: &Rc<InstRt>, ctx: &Rc<Ctx>, m: usize) {
    let mut guard = match rt.iter.try_borrow_mut() {
        Ok(g) => g,
        Err(_) => return,
    };
    let it = match guard.as_mut() {
        Some(it) => it,
        None => return,
    };
    let poll_no = {
        let mut o = rt.o.borrow_mut();
        o.polls += 1;
        o.polls
    };
    rt.stub.borrow_mut().cur_poll = poll_no;
    let r = catch_unwind(AssertUnwindSafe(|| it.nth_m(m)));
    drop(guard);
    let mut o = rt.o.borrow_mut();
    let ret = match r {
        Ok(Some(Item::Ok { t, .. })) => {
            judge_ok(rt, ctx, &mut o);
            PollRet::Ok(t)
        }
        Ok(Some(Item::Err(e))) => judge_err(rt, ctx, &e, &mut o),
        Ok(None) => {
            o.extra_none += 1;
            judge_none(rt, ctx, &mut o);
            PollRet::None
        }
        Err(p) => handle_panic(rt, ctx, &mut o, p),
    };
    o.polls_after_end += 1;
    update_driving(rt, ctx, &mut o);
    drop(o);
    ctx.log.borrow_mut().push(Event::Poll { inst: rt.idx, poll: poll_no, ret });
}

/// `it.by_ref().fold((), |_, item| ...)`: consumes every item up to the first `None`,
/// including whatever follows an `Err`; afterwards the consumer polls one at a time.
fn fold_once(rt: &Rc<InstRt>, ctx: &Rc<Ctx>, kind: u8, after_end: bool) {
    let ended = {
        let o = rt.o.borrow();
        o.err_seen || o.done_seen
    };
    if ended && !(after_end && !rt.walked_after_end.get()) {
        poll_once(rt, ctx);
        return;
    }
    if ended {
        rt.walked_after_end.set(true);
    }
    let errs_before = rt.o.borrow().errs_yielded;
    let mut guard = rt.iter.borrow_mut();
    let it = match guard.as_mut() {
        Some(it) => it,
        None => return,
    };
    {
        let next_poll = rt.o.borrow().polls + 1;
        rt.stub.borrow_mut().cur_poll = next_poll;
    }
    let max_polls = rt.max_polls;
    let r = {
        let rt2 = rt.clone();
        let ctx2 = ctx.clone();
        catch_unwind(AssertUnwindSafe(move || {
            it.walk(kind, &mut |item| {
                let mut o = rt2.o.borrow_mut();
                o.polls += 1;
                let poll_no = o.polls;
                let was_ended = o.err_seen || o.done_seen;
                let ret = match item {
                    Item::Ok { t, .. } => {
                        judge_ok(&rt2, &ctx2, &mut o);
                        PollRet::Ok(t)
                    }
                    Item::Err(e) => judge_err(&rt2, &ctx2, &e, &mut o),
                };
                if was_ended {
                    o.polls_after_end += 1;
                }
                let over = o.polls > max_polls + 64 || ctx2.violated();
                drop(o);
                rt2.stub.borrow_mut().cur_poll = poll_no + 1;
                ctx2.log.borrow_mut().push(Event::Poll { inst: rt2.idx, poll: poll_no, ret });
                if over {
                    // an iterator that never ends would make fold() run forever
                    std::panic::panic_any(HarnessAbort);
                }
            })
        }))
    };
    drop(guard);
    let mut o = rt.o.borrow_mut();
    match r {
        Ok(()) if matches!(kind, 2 | 3 | 4) && o.errs_yielded > errs_before => {
            // all()/find()/position() stopped at the Err they were given: no None has been seen yet
            update_driving(rt, ctx, &mut o);
        }
        Ok(()) => {
            // the method returned: the iterator yielded None
            o.polls += 1;
            let poll_no = o.polls;
            let was_ended = o.err_seen || o.done_seen;
            if was_ended {
                o.extra_none += 1;
                o.polls_after_end += 1;
            }
            judge_none(rt, ctx, &mut o);
            update_driving(rt, ctx, &mut o);
            drop(o);
            ctx.log.borrow_mut().push(Event::Poll { inst: rt.idx, poll: poll_no, ret: PollRet::None });
        }
        Err(p) => {
            let ret = handle_panic(rt, ctx, &mut o, p);
            let poll_no = o.polls + 1;
            drop(o);
            ctx.log.borrow_mut().push(Event::Poll { inst: rt.idx, poll: poll_no, ret });
        }
    }
}

/// `it.fold(..)` / `it.for_each(..)` by value: every item is judged as it is handed to the
/// closure; when the method returns the iterator has said `None` and is gone.
fn walk_owned_once(rt: &Rc<InstRt>, ctx: &Rc<Ctx>, kind: u8) {
    let it = match rt.iter.borrow_mut().take() {
        Some(it) => it,
        None => {
            rt.done_driving.set(true);
            return;
        }
    };
    {
        let next_poll = rt.o.borrow().polls + 1;
        rt.stub.borrow_mut().cur_poll = next_poll;
    }
    let max_polls = rt.max_polls;
    let r = {
        let rt2 = rt.clone();
        let ctx2 = ctx.clone();
        catch_unwind(AssertUnwindSafe(move || {
            it.walk_owned(kind, &mut |item| {
                let mut o = rt2.o.borrow_mut();
                o.polls += 1;
                let poll_no = o.polls;
                let was_ended = o.err_seen || o.done_seen;
                let ret = match item {
                    Item::Ok { t, .. } => {
                        judge_ok(&rt2, &ctx2, &mut o);
                        PollRet::Ok(t)
                    }
                    Item::Err(e) => judge_err(&rt2, &ctx2, &e, &mut o),
                };
                if was_ended {
                    o.polls_after_end += 1;
                }
                let over = o.polls > max_polls + 64 || ctx2.violated();
                drop(o);
                rt2.stub.borrow_mut().cur_poll = poll_no + 1;
                ctx2.log.borrow_mut().push(Event::Poll { inst: rt2.idx, poll: poll_no, ret });
                if over {
                    // an iterator that never ends would make the method run for ever
                    std::panic::panic_any(HarnessAbort);
                }
            })
        }))
    };
    let mut o = rt.o.borrow_mut();
    match r {
        Ok(()) => {
            o.polls += 1;
            let poll_no = o.polls;
            if o.err_seen || o.done_seen {
                o.extra_none += 1;
            }
            judge_none(rt, ctx, &mut o);
            drop(o);
            ctx.log.borrow_mut().push(Event::Poll { inst: rt.idx, poll: poll_no, ret: PollRet::None });
        }
        Err(p) => {
            let ret = handle_panic(rt, ctx, &mut o, p);
            let poll_no = o.polls + 1;
            drop(o);
            ctx.log.borrow_mut().push(Event::Poll { inst: rt.idx, poll: poll_no, ret });
        }
    }
    rt.done_driving.set(true);
}

/// After the iterator has ended (with an `Err` or with `None`): consume it by value with
/// `count()` or `last()`. After an `Err` there must be nothing left.
fn finish_once(rt: &Rc<InstRt>, ctx: &Rc<Ctx>, last: bool) {
    let mode: &'static str = if last { "last" } else { "count" };
    let it = match rt.iter.borrow_mut().take() {
        Some(it) => it,
        None => {
            rt.done_driving.set(true);
            return;
        }
    };
    {
        let next_poll = rt.o.borrow().polls + 1;
        rt.stub.borrow_mut().cur_poll = next_poll;
    }
    let mut o = rt.o.borrow_mut();
    let (ok_items, ret) = if last {
        match catch_unwind(AssertUnwindSafe(move || it.last_item())) {
            Ok(None) => {
                judge_none(rt, ctx, &mut o);
                (Some(0), PollRet::None)
            }
            Ok(Some(Item::Ok { t, .. })) => {
                judge_ok(rt, ctx, &mut o);
                (Some(1), PollRet::Ok(t))
            }
            Ok(Some(Item::Err(e))) => (None, judge_err(rt, ctx, &e, &mut o)),
            Err(p) => (None, handle_panic(rt, ctx, &mut o, p)),
        }
    } else {
        match catch_unwind(AssertUnwindSafe(move || it.count_all())) {
            Ok(n) => {
                if o.user_err_seen && n > 0 {
                    ctx.violate(
                        "item-after-err",
                        rt.idx,
                        format!("count() found {} further item(s) in an iterator that had already yielded the Err of a failing derivative call", n),
                    );
                } else if o.err_seen {
                    o.after_own_err += n as u64;
                }
                if o.done_seen && n > 0 {
                    o.extra_some_after_done += n as u64;
                }
                (Some(n as u64), PollRet::None)
            }
            Err(p) => (None, handle_panic(rt, ctx, &mut o, p)),
        }
    };
    rt.done_driving.set(true);
    drop(o);
    ctx.log.borrow_mut().push(Event::Collect { inst: rt.idx, mode, ok_items, ret });
}

/// `for item in it.by_ref().take(n)`
fn burst_once(rt: &Rc<InstRt>, ctx: &Rc<Ctx>, n: usize) {
    let ended = {
        let o = rt.o.borrow();
        o.err_seen || o.done_seen
    };
    if ended {
        // after the end the consumer polls one at a time
        poll_once(rt, ctx);
        return;
    }
    let mut guard = rt.iter.borrow_mut();
    let it = match guard.as_mut() {
        Some(it) => it,
        None => return,
    };
    let mut got = 0usize;
    {
        let next_poll = rt.o.borrow().polls + 1;
        rt.stub.borrow_mut().cur_poll = next_poll;
    }
    let r = {
        let rt2 = rt.clone();
        let ctx2 = ctx.clone();
        let got_ref = &mut got;
        catch_unwind(AssertUnwindSafe(move || {
            it.take_burst(n, &mut |item| {
                *got_ref += 1;
                let mut o = rt2.o.borrow_mut();
                o.polls += 1;
                let poll_no = o.polls;
                let was_ended = o.err_seen || o.done_seen;
                let ret = match item {
                    Item::Ok { t, .. } => {
                        judge_ok(&rt2, &ctx2, &mut o);
                        PollRet::Ok(t)
                    }
                    Item::Err(e) => judge_err(&rt2, &ctx2, &e, &mut o),
                };
                if was_ended {
                    o.polls_after_end += 1;
                }
                drop(o);
                rt2.stub.borrow_mut().cur_poll = poll_no + 1;
                ctx2.log.borrow_mut().push(Event::Poll { inst: rt2.idx, poll: poll_no, ret });
            })
        }))
    };
    drop(guard);
    let mut o = rt.o.borrow_mut();
    match r {
        Ok(()) => {
            if got < n {
                // take() stopped early: the iterator returned None
                o.polls += 1;
                let poll_no = o.polls;
                let was_ended = o.err_seen || o.done_seen;
                if was_ended {
                    o.extra_none += 1;
                    o.polls_after_end += 1;
                }
                judge_none(rt, ctx, &mut o);
                update_driving(rt, ctx, &mut o);
                drop(o);
                ctx.log.borrow_mut().push(Event::Poll { inst: rt.idx, poll: poll_no, ret: PollRet::None });
                return;
            }
        }
        Err(p) => {
            let ret = handle_panic(rt, ctx, &mut o, p);
            let poll_no = o.polls + 1;
            drop(o);
            ctx.log.borrow_mut().push(Event::Poll { inst: rt.idx, poll: poll_no, ret });
            return;
        }
    }
    update_driving(rt, ctx, &mut o);
}

pub struct ExecOpts {
    /// keep the events (for replay files and evidence samples)
    pub record: bool,
    /// when recording, keep at most this many trailing events (0 = all)
    pub keep_tail: usize,
    /// record the per-poll call counts (reference runs)
    pub rec_polls: bool,
    /// also run every instance of a multi-instance run alone and compare (clause F5)
    pub check_isolation: bool,
    /// record the sequence of items next() returned (shadow runs of adapter drives)
    pub rec_items: bool,
}

impl Default for ExecOpts {
    fn default() -> Self {
        ExecOpts { record: false, keep_tail: 0, rec_polls: false, check_isolation: true, rec_items: false }
    }
}

/// Apply the builder chain of one instance, comparing every call with the model (B1–B7).
fn build_instance(
    idx: u32,
    spec: &InstSpec,
    hooks: Rc<dyn StubHooks>,
    ctx: &Rc<Ctx>,
    summary: &mut InstSummary,
) -> Option<Box<dyn ErasedIter>> {
    let mut model = Model::new(spec.kind.is_euler(), spec.dim.dynamic);
    let mut builder: Option<Box<dyn ErasedBuilder>> = None;
    // what the cfg(bacon_verif) accessor of the builder showed after the last accepted call
    let mut builder_inverted_now = false;
    let mut last_builder_bounds: (Option<f64>, Option<f64>) = (None, None);
    let log = |op: &BOp, outcome: Outcome, expect: Expect| {
        ctx.log.borrow_mut().push(Event::Builder { inst: idx, op: *op, outcome, expect });
    };
    for (pos, op) in spec.ops.iter().enumerate() {
        let expect = model.expect(op);
        summary.builder_calls += 1;
        let mut iter_out: Option<Box<dyn ErasedIter>> = None;
        let outcome = match op {
            BOp::New | BOp::NewDyn(_) => {
                if pos != 0 {
                    // a second constructor call starts a fresh builder; not generated
                    return None;
                }
                let (o, b) = construct(spec.kind, spec.dim, spec.field, spec.data, op, hooks.clone(), spec.y0);
                builder = b;
                o
            }
            BOp::Solve => {
                let b = builder.as_mut()?;
                let (o, it) = b.solve();
                iter_out = it;
                o
            }
            _ => {
                let b = builder.as_mut()?;
                b.apply(op)
            }
        };
        log(op, outcome, expect);
        if !expect.admits(outcome) {
            let class = if outcome == Outcome::Panic { "builder-panic" } else { "builder-mismatch" };
            ctx.violate(
                class,
                idx,
                format!(
                    "{}::{} (call {} of the chain) returned {} where the builder contract requires {}",
                    spec.kind.name(),
                    op.tag(),
                    pos + 1,
                    outcome.name(),
                    expect.name()
                ),
            );
            return None;
        }
        match outcome {
            Outcome::Ok => {
                model.commit(op);
                if let BOp::Solve = op {
                    // B7: "setting minimum and maximum step in either order always leaves
                    // minimum <= maximum". Judged where the user can meet the consequence: the
                    // setters left the builder with inverted bounds when solve() was called AND
                    // the solver that was built has them inverted too. One of the two alone is
                    // not a violation: a builder may reconcile its bounds as late as solve(),
                    // and a solver may derive its working bounds from more than the two
                    // setters (e.g. clip the maximum step to the interval).
                    if let Some((lo, hi)) = iter_out.as_ref().and_then(|it| it.dt_bounds()) {
                        summary.solver_reads += 1;
                        ctx.log.borrow_mut().push(Event::Bounds { inst: idx, min: Some(lo), max: Some(hi) });
                        if !(lo <= hi) {
                            summary.solver_inverted = true;
                        }
                        if !(lo <= hi) && builder_inverted_now {
                            ctx.violate(
                                "bounds-inverted",
                                idx,
                                format!(
                                    "{}: the setters left minimum step {:?} above maximum step {:?} and solve() built a solver with them ({:?} > {:?})",
                                    spec.kind.name(),
                                    last_builder_bounds.0,
                                    last_builder_bounds.1,
                                    lo,
                                    hi
                                ),
                            );
                            return None;
                        }
                    }
                    return iter_out;
                }
                // the builder's own fields after every accepted call: recorded, not judged (a
                // builder may reconcile its bounds as late as solve())
                if let Some(b) = builder.as_ref() {
                    if let Some((min, max)) = b.dt_bounds() {
                        summary.hook_reads += 1;
                        ctx.log.borrow_mut().push(Event::Bounds { inst: idx, min, max });
                        last_builder_bounds = (min, max);
                        builder_inverted_now = false;
                        if let (Some(lo), Some(hi)) = (min, max) {
                            if !(lo <= hi) {
                                summary.builder_inverted = true;
                                builder_inverted_now = true;
                            }
                        }
                    }
                }
            }
            Outcome::Err(c) => {
                summary.builder_rejected = Some((op.code(), c));
                return None;
            }
            Outcome::Panic | Outcome::Abort => return None,
        }
    }
    None
}

fn empty_summary() -> InstSummary {
    InstSummary {
        built: false,
        calls: 0,
        polls: 0,
        ok_items: 0,
        ended_by: EndedBy::NotBuilt,
        fired: 0,
        first_fired_call: None,
        first_fired_poll: None,
        calls_after_fire: 0,
        ok_after_fire: 0,
        extra_none: 0,
        extra_some_after_done: 0,
        after_own_err: 0,
        own_err_after_fault: 0,
        surfaced_not_first: false,
        not_in_source_chain: false,
        builder_calls: 0,
        builder_rejected: None,
        hook_reads: 0,
        solver_reads: 0,
        builder_inverted: false,
        solver_inverted: false,
        poll_calls: Vec::new(),
        poll_kinds: Vec::new(),
        call_args: Vec::new(),
        items: Vec::new(),
        adapter_mismatch_no_fault: false,
        fp: 0,
    }
}

/// What a `next()`-driven shadow run of the same instance returned, item by item.
#[derive(Clone, Debug, PartialEq)]
pub enum ItemRec {
    Ok(u64),
    Err(ErrClass, Vec<u64>),
    None,
}

fn rec_of(ret: &PollRet) -> ItemRec {
    match ret {
        PollRet::Ok(t) => ItemRec::Ok(t.to_bits()),
        PollRet::Err(c, tags) => ItemRec::Err(*c, tags.iter().map(|t| crate::stub::tag_call(*t)).collect()),
        _ => ItemRec::None,
    }
}

/// Reference model of the provided `Iterator` methods in terms of `next()`: the shadow sequence
/// is what `next()` returns call after call (None for ever once the recording is over).
struct RefIter<'a> {
    items: &'a [ItemRec],
    pos: usize,
}

impl<'a> RefIter<'a> {
    fn next(&mut self) -> ItemRec {
        let r = self.items.get(self.pos).cloned().unwrap_or(ItemRec::None);
        self.pos += 1;
        r
    }
    /// `Iterator::nth(m)`: advance by m (stopping at the first None), then next()
    fn nth(&mut self, m: usize) -> ItemRec {
        for _ in 0..m {
            if self.next() == ItemRec::None {
                return ItemRec::None;
            }
        }
        self.next()
    }
}

/// Drive an instance through an `Iterator` adapter method (`nth(m)` with m >= 1, `count()`,
/// `last()`). Such methods discard items, so the online oracle cannot see an `Err` they skip; a
/// `next()`-driven shadow run of the same instance says where the iteration ends. The adapter is
/// judged against C06, not against the provided implementation of the method: what C06 fixes
/// is that the item sequence is `Ok.., Err(that error)` and then nothing, so
///  * an `Err` an adapter does hand out is judged like any other (`judge_err`): it may come
///    early (an `nth` that refuses to skip over a failure), it must be that error, once;
///  * an `Ok` item that lies behind the position of the `Err` in the shadow means the iteration
///    went on after the failure (class `item-after-err`); `count()` finding more items than the
///    shadow has means the same;
///  * `nth(m)` returning `None`, or `last()` returning anything else, where the element the
///    method is specified to return is that `Err`, loses the error (class `not-surfaced`).
/// Any other disagreement with the provided implementation is outside C06: counted, not judged.
fn adapter_once(rt: &Rc<InstRt>, ctx: &Rc<Ctx>, drive: Drive) {
    let shadow = match rt.shadow.as_ref() {
        Some(s) => s,
        None => {
            rt.done_driving.set(true);
            return;
        }
    };
    // position of the Err of a failing derivative call in the shadow (the shadow run is clean, so
    // an Err of class User there is the surfaced fault; any other Err is the solver's own)
    let err_pos = shadow.iter().position(|x| matches!(x, ItemRec::Err(c, _) if *c == ErrClass::User));
    let mut guard = rt.iter.borrow_mut();
    let mut refit = RefIter { items: shadow, pos: rt.cursor.get() };
    let start = refit.pos;
    let poll_no = {
        let mut o = rt.o.borrow_mut();
        o.polls += 1;
        o.polls
    };
    rt.stub.borrow_mut().cur_poll = poll_no;
    enum Got {
        Item(Option<Item>),
        Count(usize),
    }
    let (expected, got_r): (ItemRec, Result<Got, Box<dyn std::any::Any + Send>>) = match drive {
        Drive::NthSkip(m) => {
            let it = match guard.as_mut() {
                Some(it) => it,
                None => return,
            };
            let exp = refit.nth(m as usize);
            let got = catch_unwind(AssertUnwindSafe(|| it.nth_m(m as usize)));
            (exp, got.map(Got::Item))
        }
        Drive::Count => {
            let it = match guard.take() {
                Some(it) => it,
                None => return,
            };
            let mut n = 0u64;
            while refit.next() != ItemRec::None {
                n += 1;
            }
            let got = catch_unwind(AssertUnwindSafe(move || it.count_all()));
            (ItemRec::Ok(n), got.map(Got::Count))
        }
        _ => {
            let it = match guard.take() {
                Some(it) => it,
                None => return,
            };
            let mut last = ItemRec::None;
            loop {
                let x = refit.next();
                if x == ItemRec::None {
                    break;
                }
                last = x;
            }
            let got = catch_unwind(AssertUnwindSafe(move || it.last_item()));
            (last, got.map(Got::Item))
        }
    };
    drop(guard);
    rt.cursor.set(refit.pos);
    // has the provided implementation, by now, consumed the element at which the iteration ends
    // with the user's error? (only used to label how the iteration ended)
    let passed_err = err_pos.map(|e| refit.pos > e).unwrap_or(false);
    let expected_is_user_err = matches!(&expected, ItemRec::Err(c, _) if *c == ErrClass::User);
    let mut o = rt.o.borrow_mut();
    let mut stop = !matches!(drive, Drive::NthSkip(_));
    let ret = match got_r {
        Ok(Got::Count(c)) => {
            let want = match expected {
                ItemRec::Ok(n) => n,
                _ => 0,
            };
            if (c as u64) > want && err_pos.is_some() {
                ctx.violate(
                    "item-after-err",
                    rt.idx,
                    format!(
                        "count() found {} items where a consumer calling next() gets {} (the last of them the Err of the failing derivative call): the iteration went on after the failure",
                        c, want
                    ),
                );
            } else if c as u64 != want {
                o.adapter_mismatch_no_fault = true;
            }
            o.done_seen = true;
            if o.ended_by.is_none() {
                o.ended_by = Some(if err_pos.is_some() { EndedBy::UserErr } else { EndedBy::Done });
            }
            PollRet::Ok(c as f64)
        }
        Ok(Got::Item(Some(Item::Err(e)))) => {
            // handed out by the adapter: judged like any Err item (that error, first, once)
            let r = judge_err(rt, ctx, &e, &mut o);
            if o.user_err_seen {
                // whatever the provided implementation would still have in store, the iteration is over
                rt.cursor.set(shadow.len().max(refit.pos));
            } else if rec_of(&r) != expected {
                // an error of the solver itself where the provided implementation has something
                // else (e.g. an nth() that does not skip errors): outside C06, and from here on
                // the positions of the two no longer correspond
                o.adapter_mismatch_no_fault = true;
                stop = true;
            }
            r
        }
        Ok(Got::Item(Some(Item::Ok { t, .. }))) => {
            let got = ItemRec::Ok(t.to_bits());
            // the time of the last point a consumer calling next() gets before the failure:
            // anything later than that was produced by going on after the failure (this does
            // not depend on how many items the adapter consumed per call)
            let t_last = err_pos.map(|e| {
                shadow[..e].iter().fold(f64::NEG_INFINITY, |m, x| match x {
                    ItemRec::Ok(b) => m.max(f64::from_bits(*b)),
                    _ => m,
                })
            });
            if o.user_err_seen {
                judge_ok(rt, ctx, &mut o);
                stop = true;
            } else if t_last.map(|tl| t > tl).unwrap_or(false) {
                ctx.violate(
                    "item-after-err",
                    rt.idx,
                    format!(
                        "{} returned an Ok item (t = {:?}) later than the last point (t = {:?}) a consumer calling next() gets before the Err of the failing derivative call: the failure was skipped and the iteration went on",
                        drive.name(), t, t_last.unwrap_or(f64::NAN)
                    ),
                );
                stop = true;
            } else if got != expected {
                if expected_is_user_err && matches!(drive, Drive::Last) {
                    ctx.violate(
                        "not-surfaced",
                        rt.idx,
                        format!("last() returned an Ok item (t = {:?}) although the last item of the iteration is the Err of the failing derivative call", t),
                    );
                } else {
                    // a disagreement with the provided implementation before any failure is
                    // involved: outside C06
                    o.adapter_mismatch_no_fault = true;
                }
                stop = true;
            } else {
                o.ok_items += 1;
            }
            PollRet::Ok(t)
        }
        Ok(Got::Item(None)) => {
            if expected_is_user_err && !o.user_err_seen {
                ctx.violate(
                    "not-surfaced",
                    rt.idx,
                    format!(
                        "{} returned None where the element it is specified to return is the Err of the failing derivative call (positions {}..{} of the iteration)",
                        drive.name(), start, refit.pos
                    ),
                );
                stop = true;
            } else if expected != ItemRec::None && !passed_err && !o.user_err_seen {
                o.adapter_mismatch_no_fault = true;
                stop = true;
            }
            o.done_seen = true;
            if o.ended_by.is_none() {
                o.ended_by = Some(if passed_err { EndedBy::UserErr } else { EndedBy::Done });
            }
            PollRet::None
        }
        Err(p) => {
            stop = true;
            handle_panic(rt, ctx, &mut o, p)
        }
    };
    let ended = o.err_seen || o.done_seen;
    if stop {
        rt.done_driving.set(true);
    } else if ended {
        o.polls_after_end += 1;
        if o.polls_after_end > rt.extra_polls {
            rt.done_driving.set(true);
        }
    }
    if o.polls >= rt.max_polls {
        rt.done_driving.set(true);
    }
    drop(o);
    ctx.log.borrow_mut().push(Event::Poll { inst: rt.idx, poll: poll_no, ret });
}

/// One action of the simulated consumer on one instance.
fn drive_once(rt: &Rc<InstRt>, ctx: &Rc<Ctx>, drive: Drive) {
    watch::driving(!rt.stub.borrow().fired.is_empty());
    match drive {
        Drive::Poll => poll_once(rt, ctx),
        Drive::CollectVec => collect_once(rt, ctx, true),
        Drive::ByRefCollect => {
            let started = {
                let o = rt.o.borrow();
                o.err_seen || o.done_seen
            };
            if started {
                poll_once(rt, ctx)
            } else {
                collect_once(rt, ctx, false)
            }
        }
        Drive::TakeBursts(k) => burst_once(rt, ctx, k.max(1) as usize),
        Drive::Nth0 => nth_once(rt, ctx),
        Drive::Walk(k) => fold_once(rt, ctx, k, false),
        Drive::WalkOwned(k) => walk_owned_once(rt, ctx, k),
        Drive::PollThenWalk(k) => {
            let ended = {
                let o = rt.o.borrow();
                o.err_seen || o.done_seen
            };
            if ended {
                fold_once(rt, ctx, k, true)
            } else {
                poll_once(rt, ctx)
            }
        }
        Drive::PollThenCollect => {
            let ended = {
                let o = rt.o.borrow();
                o.err_seen || o.done_seen
            };
            if ended {
                collect_once(rt, ctx, true)
            } else {
                poll_once(rt, ctx)
            }
        }
        Drive::PollNThenCollect(n) => {
            let (ended, polls) = {
                let o = rt.o.borrow();
                (o.err_seen || o.done_seen, o.polls)
            };
            if ended || polls >= n as u64 {
                collect_once(rt, ctx, true)
            } else {
                poll_once(rt, ctx)
            }
        }
        Drive::PollThenNth(m) => {
            // a finisher that discards items is only meaningful once the iteration has ended
            // with the Err of a failing derivative call (then it must find nothing); after an
            // error of the solver itself the iteration may legitimately go on, and what nth()
            // skips there cannot be seen
            let ended = rt.o.borrow().user_err_seen;
            if ended {
                nth_after_end(rt, ctx, m as usize)
            } else {
                poll_once(rt, ctx)
            }
        }
        Drive::PollThenCount | Drive::PollThenLast => {
            let ended = rt.o.borrow().user_err_seen;
            if ended {
                finish_once(rt, ctx, drive == Drive::PollThenLast)
            } else {
                poll_once(rt, ctx)
            }
        }
        Drive::NthSkip(_) | Drive::Count | Drive::Last => adapter_once(rt, ctx, drive),
    }
}

/// Execute one run. Pure function of `spec` (and of the code under test).
pub fn execute(spec: &RunSpec, budgets: &[Budget], opts: &ExecOpts) -> RunResult {
    watch::enter(spec, budgets);
    let r = execute_inner(spec, budgets, opts);
    watch::leave();
    r
}

fn execute_inner(spec: &RunSpec, budgets: &[Budget], opts: &ExecOpts) -> RunResult {
    let n = spec.instances.len();

    // adapter drives: a next()-driven shadow run of the same instance is the reference
    let mut shadows: Vec<Option<Vec<ItemRec>>> = vec![None; n];
    let mut unbounded: Vec<bool> = vec![false; n];
    let mut shadow_violation: Option<Violation> = None;
    for i in 0..n {
        // (the by-value finishers count()/last()/collect_vec() cannot be bounded from outside, so
        // they are only run on an instance whose next()-driven shadow is clean)
        if matches!(
            spec.instances[i].drive,
            Drive::NthSkip(_) | Drive::Count | Drive::Last | Drive::PollThenCollect | Drive::PollThenCount | Drive::PollThenLast
        ) {
            let s = RunSpec {
                instances: vec![InstSpec { nested_every: 0, drive: Drive::Poll, ..spec.instances[i].clone() }],
                sched_seed: 0,
                phased: false,
                solo_baselines: true,
            };
            let b = [budgets.get(i).copied().unwrap_or(Budget::REFERENCE)];
            let r = execute(&s, &b, &ExecOpts { record: false, keep_tail: 0, rec_polls: false, check_isolation: false, rec_items: true });
            if let (Some(v), None) = (r.violation, shadow_violation.as_ref()) {
                shadow_violation = Some(Violation { inst: i as u32, ..v });
            }
            // by-value count()/last() cannot be bounded from outside: only on an iteration the
            // shadow has seen end with None (an iterator that repeats its own error for ever
            // without calling the derivative would never return from them)
            if matches!(spec.instances[i].drive, Drive::Count | Drive::Last) && r.insts[0].items.last() != Some(&ItemRec::None) {
                unbounded[i] = true;
            }
            shadows[i] = Some(r.insts[0].items.clone());
        }
    }

    if let Some(v) = shadow_violation {
        // the same instance driven by next() already violates the property; the comparison of
        // an adapter with that shadow would be meaningless, the shadow's violation is the result
        return RunResult {
            violation: Some(v),
            fp: 0,
            events: if opts.record { Some(Vec::new()) } else { None },
            first_seq_kept: 1,
            insts: (0..n).map(|_| empty_summary()).collect(),
        };
    }

    // F5 baselines, taken before the joint run: every instance alone
    let mut solo: Vec<(u64, bool)> = Vec::new();
    if n > 1 && opts.check_isolation && spec.solo_baselines {
        for i in 0..n {
            let s = RunSpec {
                instances: vec![InstSpec { nested_every: 0, ..spec.instances[i].clone() }],
                sched_seed: 0,
                phased: false,
                solo_baselines: true,
            };
            let b = [budgets.get(i).copied().unwrap_or(Budget::REFERENCE)];
            let r = execute(&s, &b, &ExecOpts { record: false, keep_tail: 0, rec_polls: false, check_isolation: false, rec_items: false });
            solo.push((r.insts[0].fp, r.violation.is_some()));
        }
    }

    let ctx = Rc::new(Ctx {
        log: RefCell::new(RunLog {
            seq: 0,
            fp: Fnv::default(),
            inst_fp: vec![Fnv::default(); n],
            events: if opts.record { Some(Vec::new()) } else { None },
            keep_tail: opts.keep_tail,
        }),
        violation: RefCell::new(None),
    });
    let mut summaries: Vec<InstSummary> = (0..n).map(|_| empty_summary()).collect();
    let mut rts: Vec<Rc<InstRt>> = Vec::with_capacity(n);

    let build = |i: usize, summaries: &mut Vec<InstSummary>| -> Rc<InstRt> {
        let ispec = &spec.instances[i];
        let budget = budgets.get(i).copied().unwrap_or(Budget::REFERENCE);
        let stub = Rc::new(RefCell::new(StubShared {
            inst: i as u32,
            calls: 0,
            plan: ispec.plan.clone(),
            payload: ispec.payload,
            problem: ispec.problem,
            fired: Vec::new(),
            max_calls: budget.max_calls,
            nested_every: ispec.nested_every,
            nested_target: None,
            cur_poll: 0,
            first_fired_poll: None,
            rec_calls: opts.rec_polls,
            call_args: Vec::new(),
        }));
        let hooks: Rc<dyn StubHooks> = Rc::new(Hooks { s: stub.clone(), ctx: ctx.clone() });
        let iter = if ctx.violated() {
            None
        } else {
            watch::driving(false);
            build_instance(i as u32, ispec, hooks, &ctx, &mut summaries[i])
        };
        summaries[i].built = iter.is_some();
        Rc::new(InstRt {
            idx: i as u32,
            payload: ispec.payload,
            done_driving: Cell::new(iter.is_none()),
            iter: RefCell::new(iter),
            stub,
            o: RefCell::new(Oracle::default()),
            max_polls: budget.max_polls,
            extra_polls: ispec.extra_polls as u64,
            rec_polls: opts.rec_polls,
            rec_items: opts.rec_items,
            walked_after_end: Cell::new(false),
            shadow: shadows[i].clone(),
            cursor: Cell::new(0),
            collect_own_err: Cell::new(None),
        })
    };

    if spec.phased {
        // one instance after the other: built, driven to its end, and only then the next one
        for i in 0..n {
            let rt = build(i, &mut summaries);
            let mut guard_steps: u64 = 0;
            while !ctx.violated() && !rt.done_driving.get() && guard_steps < 10_000_000 {
                drive_once(&rt, &ctx, if unbounded[i] { Drive::Poll } else { spec.instances[i].drive });
                guard_steps += 1;
            }
            rts.push(rt);
        }
    } else {
        // phase 1: the simulated caller builds every instance
        for i in 0..n {
            let rt = build(i, &mut summaries);
            rts.push(rt);
        }
        // nested targets: instance i may advance instance i+1 from inside its derivative
        for i in 0..n {
            if spec.instances[i].nested_every > 0 && i + 1 < n && spec.instances[i + 1].drive == Drive::Poll {
                rts[i].stub.borrow_mut().nested_target = Some(rts[i + 1].clone());
            }
        }
        // phase 2: the simulated consumer drives the iterators
        let mut sched = SplitMix64::new(spec.sched_seed);
        let mut rr = 0usize;
        let mut guard_steps: u64 = 0;
        while !ctx.violated() {
            let live: Vec<usize> = (0..n).filter(|&i| !rts[i].done_driving.get()).collect();
            if live.is_empty() {
                break;
            }
            let pick = if spec.sched_seed == 0 {
                rr += 1;
                live[rr % live.len()]
            } else {
                live[sched.below(live.len() as u64) as usize]
            };
            drive_once(&rts[pick], &ctx, if unbounded[pick] { Drive::Poll } else { spec.instances[pick].drive });
            guard_steps += 1;
            if guard_steps > 10_000_000 {
                break;
            }
        }
    }
    // drop the links between instances so that everything is freed here
    for rt in &rts {
        rt.stub.borrow_mut().nested_target = None;
    }
    // An error of the solver itself handed out while a fired fault was pending is only innocent
    // if it was computed BEFORE the failing call (an iterator working ahead of its consumer). Then
    // the fault-free run of the same instance, which is identical up to that call, has the same
    // error at the same place. If it does not, the error exists only because the derivative
    // failed: the user's error was turned into (or preceded by) something else.
    if !ctx.violated() {
        for (i, rt) in rts.iter().enumerate() {
            let at: Vec<(u64, ErrClass)> = rt.o.borrow().own_after_fault_at.clone();
            let item_indexed = !matches!(
                spec.instances[i].drive,
                Drive::NthSkip(_) | Drive::Count | Drive::Last | Drive::CollectVec | Drive::ByRefCollect
            );
            if at.is_empty() || !item_indexed {
                continue;
            }
            let s = RunSpec {
                instances: vec![InstSpec {
                    nested_every: 0,
                    drive: Drive::Poll,
                    extra_polls: 8,
                    plan: FaultPlan::None,
                    ..spec.instances[i].clone()
                }],
                sched_seed: 0,
                phased: false,
                solo_baselines: true,
            };
            let mut b = budgets.get(i).copied().unwrap_or(Budget::REFERENCE);
            b.max_polls = b.max_polls.max(at.iter().map(|x| x.0).max().unwrap_or(0) + 16);
            let r = execute(&s, &[b], &ExecOpts { record: false, keep_tail: 0, rec_polls: false, check_isolation: false, rec_items: true });
            if r.violation.is_some() {
                continue;
            }
            let items = &r.insts[0].items;
            for (pos, class) in at {
                let same = match items.get((pos as usize).wrapping_sub(1)) {
                    Some(ItemRec::Err(c, _)) => *c == class,
                    // the fault-free run yields a point where the faulty one has the error
                    Some(ItemRec::Ok(_)) => false,
                    // the fault-free run was not driven that far, or its poll at that place was
                    // cut short by the call budget (without the fault the solver may go on
                    // computing for a long time), or it ended there: no verdict
                    Some(ItemRec::None) | None => true,
                };
                if !same {
                    ctx.violate(
                        "wrong-error",
                        i as u32,
                        format!(
                            "after the derivative had returned Err (call {}), item {} was Err({}), an error of the solver itself that the fault-free run of the same configuration does not have at that place: it exists only because the derivative failed, and it is not the user's error",
                            rt.stub.borrow().fired.first().map(|t| crate::stub::tag_call(*t)).unwrap_or(0),
                            pos,
                            class.name()
                        ),
                    );
                    break;
                }
            }
            if ctx.violated() {
                break;
            }
        }
    }
    // "collect_vec returns that error": a by-value collect_vec() that came back with an error of
    // the solver itself while a fault had fired is compared with the same instance driven by
    // next(): if the first Err a next()-driven consumer meets (from where the collect started)
    // is the user's, collect_vec() returned something else than that error
    if !ctx.violated() {
        for (i, rt) in rts.iter().enumerate() {
            if let Some((class, from)) = rt.collect_own_err.get() {
                let s = RunSpec {
                    instances: vec![InstSpec { nested_every: 0, drive: Drive::Poll, extra_polls: 8, ..spec.instances[i].clone() }],
                    sched_seed: 0,
                    phased: false,
                    solo_baselines: true,
                };
                let b = [budgets.get(i).copied().unwrap_or(Budget::REFERENCE)];
                let r = execute(&s, &b, &ExecOpts { record: false, keep_tail: 0, rec_polls: false, check_isolation: false, rec_items: true });
                let first_err = r.insts[0].items.iter().skip(from as usize).find_map(|x| match x {
                    ItemRec::Err(c, _) => Some(*c),
                    _ => None,
                });
                if let Some(v) = r.violation.as_ref() {
                    // the same instance driven by next() already violates the property (e.g. an
                    // error of the solver itself that exists only because the derivative failed):
                    // collect_vec() handed out part of that
                    if matches!(v.class, "wrong-error" | "not-surfaced") {
                        ctx.violate(v.class, i as u32, format!("collect_vec() returned Err({}); driven by next(), the same instance: {}", class.name(), v.detail));
                    }
                } else if first_err == Some(ErrClass::User) {
                    ctx.violate(
                        "not-surfaced",
                        i as u32,
                        format!(
                            "collect_vec() returned Err({}), which does not carry the error the derivative returned at call {}, although the first Err a consumer calling next() meets is that user error",
                            class.name(),
                            rt.stub.borrow().fired.first().map(|t| crate::stub::tag_call(*t)).unwrap_or(0)
                        ),
                    );
                }
            }
        }
    }

    for (i, rt) in rts.iter().enumerate() {
        let o = rt.o.borrow();
        let s = rt.stub.borrow();
        let sm = &mut summaries[i];
        sm.calls = s.calls;
        sm.polls = o.polls;
        sm.ok_items = o.ok_items;
        sm.fired = s.fired.len() as u64;
        sm.first_fired_call = s.fired.first().map(|t| crate::stub::tag_call(*t));
        sm.first_fired_poll = s.first_fired_poll;
        sm.calls_after_fire = sm.first_fired_call.map(|k| s.calls.saturating_sub(k)).unwrap_or(0);
        sm.ok_after_fire = o.ok_after_fire;
        sm.extra_none = o.extra_none;
        sm.extra_some_after_done = o.extra_some_after_done;
        sm.after_own_err = o.after_own_err;
        sm.own_err_after_fault = o.own_err_after_fault;
        sm.surfaced_not_first = o.surfaced_not_first;
        sm.not_in_source_chain = o.not_in_source_chain;
        sm.poll_calls = o.poll_calls.clone();
        sm.poll_kinds = o.poll_kinds.clone();
        sm.call_args = s.call_args.clone();
        sm.items = o.items.clone();
        sm.adapter_mismatch_no_fault = o.adapter_mismatch_no_fault;
        sm.ended_by = if !sm.built {
            EndedBy::NotBuilt
        } else if let Some(e) = o.ended_by {
            e
        } else if ctx.violated() {
            EndedBy::Violation
        } else {
            EndedBy::Budget
        };
    }
    let mut violation = ctx.violation.borrow_mut().take();
    let (fp, inst_fps, events, seq) = {
        let mut log = ctx.log.borrow_mut();
        (log.fp.0, log.inst_fp.iter().map(|f| f.0).collect::<Vec<_>>(), log.events.take(), log.seq)
    };
    for (i, f) in inst_fps.iter().enumerate() {
        summaries[i].fp = *f;
    }
    drop(rts);

    // F5: instances share nothing, so the history of each (its builder calls, the arguments
    // and results of its derivative calls, the results of its next() calls) must be exactly
    // the history it has alone
    if violation.is_none() && !solo.is_empty() {
        for i in 0..n {
            let (solo_fp, solo_violated) = solo[i];
            if solo_violated || solo_fp != summaries[i].fp {
                let a = &summaries[i];
                violation = Some(Violation {
                    class: "cross-talk",
                    inst: i as u32,
                    detail: format!(
                        "instance {} ({}) has a different history next to the other instances of the run than alone (history fingerprint {:016x} vs {:016x}; here: {} derivative calls, {} next() calls, {} Ok items, ended {:?}): solver instances influence each other",
                        i, spec.instances[i].kind.name(), a.fp, solo_fp, a.calls, a.polls, a.ok_items, a.ended_by
                    ),
                });
                break;
            }
        }
    }

    // ... and two instances with identical specifications must have identical histories
    if violation.is_none() && n > 1 && opts.check_isolation {
        // identical means bit for bit (-0.0 and 0.0 are different arguments), which is how the
        // histories are compared too
        let twin_keys: Vec<String> = spec.instances.iter().map(|i| i.to_json().to_string_compact()).collect();
        let plain = |i: usize| {
            spec.instances[i].nested_every == 0 && (i == 0 || spec.instances[i - 1].nested_every == 0 || spec.phased)
        };
        'outer: for i in 0..n {
            for j in (i + 1)..n {
                if plain(i) && plain(j) && twin_keys[i] == twin_keys[j] && summaries[i].fp != summaries[j].fp {
                    let (a, b) = (&summaries[i], &summaries[j]);
                    violation = Some(Violation {
                        class: "cross-talk",
                        inst: j as u32,
                        detail: format!(
                            "instances {} and {} of the run have identical specifications ({}) but different histories (fingerprints {:016x} vs {:016x}; {} vs {} derivative calls, {} vs {} Ok items, ended {:?} vs {:?}): a solver instance is influenced by what other instances did before it",
                            i, j, spec.instances[i].kind.name(), a.fp, b.fp, a.calls, b.calls, a.ok_items, b.ok_items, a.ended_by, b.ended_by
                        ),
                    });
                    break 'outer;
                }
            }
        }
    }

    let kept = events.as_ref().map(|e| e.len() as u64).unwrap_or(0);
    RunResult { violation, fp, events, first_seq_kept: seq - kept + 1, insts: summaries }
}

/// Budgets travel with the spec in replay files.
pub fn budgets_to_json(b: &[Budget]) -> J {
    J::A(b.iter()
        .map(|x| J::obj(vec![("max_calls", J::U(x.max_calls)), ("max_polls", J::U(x.max_polls))]))
        .collect())
}

pub fn budgets_from_json(j: &J) -> Result<Vec<Budget>, String> {
    let mut v = Vec::new();
    for x in j.as_arr().ok_or("budgets: not an array")? {
        v.push(Budget {
            max_calls: x.get("max_calls").and_then(|y| y.as_u64()).ok_or("budget: max_calls")?,
            max_polls: x.get("max_polls").and_then(|y| y.as_u64()).ok_or("budget: max_polls")?,
        });
    }
    Ok(v)
}
