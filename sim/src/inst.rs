//! Instantiation of the real builders and iterators: 7 solver types x {Const<1>, Const<2>,
//! Const<3>, Dyn} x {f64, Complex<f64>} = 56 monomorphisations of one generic driver, behind
//! two object-safe traits so that a run can hold instances of different types side by side.

use crate::model::{ErrClass, Outcome};
use crate::spec::{BOp, DataMode, DimMode, Field, Kind, Problem};
use crate::stub::{initial_state, rhs, Scalar};
use bacon_sci::ivp::adams::{Adams3, Adams5};
use bacon_sci::ivp::bdf::{BDF2, BDF6};
use bacon_sci::ivp::rk::{RungeKutta23, RungeKutta45};
use bacon_sci::ivp::{Euler, IVPError, IVPIterator, IVPSolver, UserError};
use bacon_sci::{BVector, Dimension};
use nalgebra::{allocator::Allocator, Const, DefaultAllocator, Dim, Dyn, U1};
use num_complex::Complex;
use std::panic::{catch_unwind, AssertUnwindSafe};
use std::rc::Rc;

#[cfg(not(bacon_verif))]
compile_error!("ivpsim must be built with RUSTFLAGS=\"--cfg bacon_verif\" (the hook in /repo is needed for clause B7)");

pub type DerivBox<N, D, U> = Box<dyn FnMut(f64, &[N], &mut U) -> Result<BVector<N, D>, UserError>>;

/// The user-data type handed to `solve()` and on to the derivative: either the unit type or a
/// non-zero-sized value that the derivative mutates at every call.
pub trait SimData: Clone + 'static {
    fn fresh() -> Self;
    fn touch(&mut self);
}

impl SimData for () {
    fn fresh() -> Self {}
    fn touch(&mut self) {}
}

#[derive(Clone, Debug)]
pub struct Counter {
    pub calls: u64,
    pub checksum: u64,
}

impl SimData for Counter {
    fn fresh() -> Self {
        Counter { calls: 0, checksum: 0x9E37 }
    }
    fn touch(&mut self) {
        self.calls += 1;
        self.checksum = self.checksum.rotate_left(5) ^ self.calls;
    }
}

/// What the derivative stub asks the simulator at every call.
pub trait StubHooks {
    /// Called once per derivative call with the time argument and the largest modulus of a
    /// state component; `Some(e)` makes the call fail.
    fn on_call(&self, t: f64, ymax: f64) -> Option<UserError>;
    fn problem(&self) -> Problem;
}

/// Read-only view of the builder's step bounds through the cfg(bacon_verif) hook.
pub trait DtBounds {
    fn dt_bounds(&self) -> Option<(Option<f64>, Option<f64>)>;
}

/// The builder API *as a user calls it*: on the concrete type (`RungeKutta45::new()`,
/// `builder.with_tolerance(..)`), where an inherent method of the same name takes precedence over
/// the `IVPSolver` trait method. Generic code over `S: IVPSolver` can only ever reach the trait
/// items, so a convenience constructor or setter added as an inherent method (and behaving
/// differently) would be invisible to it. These methods are implemented per concrete type by the
/// macro below, inside an `impl` whose `Self` is the concrete type, which is where method
/// resolution looks at inherent items first.
pub trait AsCalled<N: Scalar, D: Dimension, U>: Sized
where
    DefaultAllocator: Allocator<N, D>,
{
    type Iter;
    fn c_new() -> Result<Self, IVPError>;
    fn c_new_dyn(n: usize) -> Result<Self, IVPError>;
    fn c_tol(self, v: f64) -> Result<Self, IVPError>;
    fn c_max(self, v: f64) -> Result<Self, IVPError>;
    fn c_min(self, v: f64) -> Result<Self, IVPError>;
    fn c_start(self, v: f64) -> Result<Self, IVPError>;
    fn c_end(self, v: f64) -> Result<Self, IVPError>;
    fn c_ic_slice(self, y: &[N]) -> Result<Self, IVPError>;
    fn c_ic(self, y: BVector<N, D>) -> Result<Self, IVPError>;
    fn c_deriv(self, f: DerivBox<N, D, U>) -> Self;
    fn c_solve(self, data: U) -> Result<Self::Iter, IVPError>;
}

macro_rules! impl_as_called {
    ($T:ident, $N:ty, $D:ty, $U:ty) => {
        impl AsCalled<$N, $D, $U> for $T<'static, $N, $D, $U, DerivBox<$N, $D, $U>> {
            type Iter = IVPIterator<$D, <Self as IVPSolver<'static, $D>>::Solver>;
            fn c_new() -> Result<Self, IVPError> { Self::new() }
            fn c_new_dyn(n: usize) -> Result<Self, IVPError> { Self::new_dyn(n) }
            fn c_tol(self, v: f64) -> Result<Self, IVPError> { self.with_tolerance(v) }
            fn c_max(self, v: f64) -> Result<Self, IVPError> { self.with_maximum_dt(v) }
            fn c_min(self, v: f64) -> Result<Self, IVPError> { self.with_minimum_dt(v) }
            fn c_start(self, v: f64) -> Result<Self, IVPError> { self.with_initial_time(v) }
            fn c_end(self, v: f64) -> Result<Self, IVPError> { self.with_ending_time(v) }
            fn c_ic_slice(self, y: &[$N]) -> Result<Self, IVPError> { self.with_initial_conditions_slice(y) }
            fn c_ic(self, y: BVector<$N, $D>) -> Result<Self, IVPError> { self.with_initial_conditions(y) }
            fn c_deriv(self, f: DerivBox<$N, $D, $U>) -> Self { self.with_derivative(f) }
            fn c_solve(self, data: $U) -> Result<Self::Iter, IVPError> { self.solve(data) }
        }
    };
}

macro_rules! impl_dt_bounds {
    ($($N:ty, $D:ty, $U:ty);* $(;)?) => {$(
        impl_as_called!(Euler, $N, $D, $U);
        impl_as_called!(RungeKutta45, $N, $D, $U);
        impl_as_called!(RungeKutta23, $N, $D, $U);
        impl_as_called!(Adams5, $N, $D, $U);
        impl_as_called!(Adams3, $N, $D, $U);
        impl_as_called!(BDF6, $N, $D, $U);
        impl_as_called!(BDF2, $N, $D, $U);
        impl DtBounds for Euler<'static, $N, $D, $U, DerivBox<$N, $D, $U>> {
            fn dt_bounds(&self) -> Option<(Option<f64>, Option<f64>)> { None }
        }
        impl DtBounds for RungeKutta45<'static, $N, $D, $U, DerivBox<$N, $D, $U>> {
            fn dt_bounds(&self) -> Option<(Option<f64>, Option<f64>)> { Some(self.verif_dt_bounds()) }
        }
        impl DtBounds for RungeKutta23<'static, $N, $D, $U, DerivBox<$N, $D, $U>> {
            fn dt_bounds(&self) -> Option<(Option<f64>, Option<f64>)> { Some(self.verif_dt_bounds()) }
        }
        impl DtBounds for Adams5<'static, $N, $D, $U, DerivBox<$N, $D, $U>> {
            fn dt_bounds(&self) -> Option<(Option<f64>, Option<f64>)> { Some(self.verif_dt_bounds()) }
        }
        impl DtBounds for Adams3<'static, $N, $D, $U, DerivBox<$N, $D, $U>> {
            fn dt_bounds(&self) -> Option<(Option<f64>, Option<f64>)> { Some(self.verif_dt_bounds()) }
        }
        impl DtBounds for BDF6<'static, $N, $D, $U, DerivBox<$N, $D, $U>> {
            fn dt_bounds(&self) -> Option<(Option<f64>, Option<f64>)> { Some(self.verif_dt_bounds()) }
        }
        impl DtBounds for BDF2<'static, $N, $D, $U, DerivBox<$N, $D, $U>> {
            fn dt_bounds(&self) -> Option<(Option<f64>, Option<f64>)> { Some(self.verif_dt_bounds()) }
        }
    )*};
}

impl_dt_bounds! {
    f64, Const<1>, (); f64, Const<2>, (); f64, Const<3>, (); f64, Const<4>, (); f64, Dyn, ();
    Complex<f64>, Const<1>, (); Complex<f64>, Const<2>, (); Complex<f64>, Const<3>, (); Complex<f64>, Const<4>, (); Complex<f64>, Dyn, ();
    f64, Const<1>, Counter; f64, Const<2>, Counter; f64, Const<3>, Counter; f64, Const<4>, Counter; f64, Dyn, Counter;
    Complex<f64>, Const<1>, Counter; Complex<f64>, Const<2>, Counter; Complex<f64>, Const<3>, Counter; Complex<f64>, Const<4>, Counter; Complex<f64>, Dyn, Counter;
}

/// Read-only view of the step bounds a built solver holds, through the second cfg(bacon_verif)
/// hook (clause B7 is judged on what reaches the solver, not on the builder's private fields).
pub trait SolverBounds {
    fn solver_bounds(&self) -> Option<(f64, f64)>;
}

impl<'a, N, D, T, F> SolverBounds for bacon_sci::ivp::EulerSolver<'a, N, D, T, F>
where
    N: nalgebra::ComplexField + Copy,
    D: Dimension,
    T: Clone,
    F: bacon_sci::ivp::Derivative<N, D, T> + 'a,
    DefaultAllocator: Allocator<N, D>,
{
    fn solver_bounds(&self) -> Option<(f64, f64)> {
        None
    }
}

impl<'a, N, D, const O: usize, T, F> SolverBounds for bacon_sci::ivp::rk::RungeKuttaSolver<'a, N, D, O, T, F>
where
    N: nalgebra::ComplexField<RealField = f64> + Copy,
    D: Dimension,
    T: Clone,
    F: bacon_sci::ivp::Derivative<N, D, T> + 'a,
    DefaultAllocator: Allocator<N, D>,
    DefaultAllocator: Allocator<N, Const<O>>,
    DefaultAllocator: Allocator<N, D, Const<O>>,
{
    fn solver_bounds(&self) -> Option<(f64, f64)> {
        Some(self.verif_dt_bounds())
    }
}

impl<'a, N, D, const O: usize, T, F> SolverBounds for bacon_sci::ivp::adams::AdamsSolver<'a, N, D, O, T, F>
where
    N: nalgebra::ComplexField<RealField = f64> + Copy,
    D: Dimension,
    T: Clone,
    F: bacon_sci::ivp::Derivative<N, D, T> + 'a,
    DefaultAllocator: Allocator<N, D>,
{
    fn solver_bounds(&self) -> Option<(f64, f64)> {
        Some(self.verif_dt_bounds())
    }
}

impl<'a, N, D, const O: usize, T, F> SolverBounds for bacon_sci::ivp::bdf::BDFSolver<'a, N, D, O, T, F>
where
    N: nalgebra::ComplexField<RealField = f64> + Copy,
    D: Dimension + nalgebra::DimMin<D, Output = D>,
    T: Clone,
    F: bacon_sci::ivp::Derivative<N, D, T> + 'a,
    DefaultAllocator: Allocator<N, D>,
    DefaultAllocator: Allocator<N, D, D>,
{
    fn solver_bounds(&self) -> Option<(f64, f64)> {
        Some(self.verif_dt_bounds())
    }
}

/// A generic computation to be run for one (solver, scalar, dimension) instantiation.
pub trait Visitor {
    type Out;
    fn visit<S, N, D, U>(self) -> Self::Out
    where
        N: Scalar,
        U: SimData,
        D: Dimension + 'static,
        DefaultAllocator: Allocator<N, D>,
        S: IVPSolver<
                'static,
                D,
                Error = IVPError,
                Field = N,
                RealField = f64,
                UserData = U,
                Derivative = DerivBox<N, D, U>,
            > + DtBounds
            + AsCalled<N, D, U, Iter = IVPIterator<D, <S as IVPSolver<'static, D>>::Solver>>
            + 'static,
        S::Solver: SolverBounds + 'static;
}

macro_rules! by_kind {
    ($kind:expr, $v:expr, $N:ty, $D:ty, $U:ty) => {
        match $kind {
            Kind::Euler => $v.visit::<Euler<'static, $N, $D, $U, DerivBox<$N, $D, $U>>, $N, $D, $U>(),
            Kind::Rk45 => $v.visit::<RungeKutta45<'static, $N, $D, $U, DerivBox<$N, $D, $U>>, $N, $D, $U>(),
            Kind::Rk23 => $v.visit::<RungeKutta23<'static, $N, $D, $U, DerivBox<$N, $D, $U>>, $N, $D, $U>(),
            Kind::Adams5 => $v.visit::<Adams5<'static, $N, $D, $U, DerivBox<$N, $D, $U>>, $N, $D, $U>(),
            Kind::Adams3 => $v.visit::<Adams3<'static, $N, $D, $U, DerivBox<$N, $D, $U>>, $N, $D, $U>(),
            Kind::Bdf6 => $v.visit::<BDF6<'static, $N, $D, $U, DerivBox<$N, $D, $U>>, $N, $D, $U>(),
            Kind::Bdf2 => $v.visit::<BDF2<'static, $N, $D, $U, DerivBox<$N, $D, $U>>, $N, $D, $U>(),
        }
    };
}

macro_rules! by_dim {
    ($kind:expr, $dim:expr, $v:expr, $N:ty, $U:ty) => {
        match ($dim.dynamic, $dim.n) {
            (true, _) => by_kind!($kind, $v, $N, Dyn, $U),
            (false, 1) => by_kind!($kind, $v, $N, Const<1>, $U),
            (false, 2) => by_kind!($kind, $v, $N, Const<2>, $U),
            (false, 3) => by_kind!($kind, $v, $N, Const<3>, $U),
            (false, 4) => by_kind!($kind, $v, $N, Const<4>, $U),
            _ => panic!("unsupported dimension"),
        }
    };
}

pub fn dispatch<V: Visitor>(kind: Kind, dim: DimMode, field: Field, data: DataMode, v: V) -> V::Out {
    match (field, data) {
        (Field::Real, DataMode::Unit) => by_dim!(kind, dim, v, f64, ()),
        (Field::Complex, DataMode::Unit) => by_dim!(kind, dim, v, Complex<f64>, ()),
        (Field::Real, DataMode::Counter) => by_dim!(kind, dim, v, f64, Counter),
        (Field::Complex, DataMode::Counter) => by_dim!(kind, dim, v, Complex<f64>, Counter),
    }
}

// ---------------------------------------------------------------------------------------------
// erased iterator

pub enum Item {
    Ok { t: f64, len: usize },
    Err(IVPError),
}

pub trait ErasedIter {
    fn poll(&mut self) -> Option<Item>;
    fn collect_vec(self: Box<Self>) -> Result<usize, IVPError>;
    fn by_ref_collect(&mut self) -> Result<usize, IVPError>;
    /// `for item in it.by_ref().take(n) { cb(item) }`
    fn take_burst(&mut self, n: usize, cb: &mut dyn FnMut(Item));
    /// `it.nth(0)`
    fn nth0(&mut self) -> Option<Item>;
    /// an internal-iteration method on `it.by_ref()`, every item it sees handed to `cb`:
    /// 0 `fold`, 1 `for_each`, 2 `all(|x| x.is_ok())`, 3 `find(|x| x.is_err())`,
    /// 4 `position(|x| x.is_err())`. (`reduce`, `max_by`, ... hold the first item back until the second has
    /// been pulled, so an item could only be judged after later derivative calls: not driven.)
    fn walk(&mut self, kind: u8, cb: &mut dyn FnMut(Item));
    /// `it.fold(..)` (kind 0) / `it.for_each(..)` (kind 1) by value
    fn walk_owned(self: Box<Self>, kind: u8, cb: &mut dyn FnMut(Item));
    /// `it.nth(m)`
    fn nth_m(&mut self, m: usize) -> Option<Item>;
    /// `it.count()`
    fn count_all(self: Box<Self>) -> usize;
    /// `it.last()`
    fn last_item(self: Box<Self>) -> Option<Item>;
    /// (minimum, maximum) step the solver holds; None for Euler
    fn dt_bounds(&self) -> Option<(f64, f64)>;
}

fn conv<N: Scalar, D: Dim>(r: Result<(f64, BVector<N, D>), IVPError>) -> Item
where
    DefaultAllocator: Allocator<N, D>,
{
    match r {
        Ok((t, v)) => Item::Ok { t, len: v.len() },
        Err(e) => Item::Err(e),
    }
}

impl<D, T> ErasedIter for IVPIterator<D, T>
where
    D: Dimension,
    T: bacon_sci::ivp::IVPStepper<D, Error = IVPError, RealField = f64> + SolverBounds,
    T::Field: Scalar,
    DefaultAllocator: Allocator<T::Field, D>,
{
    fn poll(&mut self) -> Option<Item> {
        self.next().map(conv::<T::Field, D>)
    }
    fn collect_vec(self: Box<Self>) -> Result<usize, IVPError> {
        (*self).collect_vec().map(|v| v.len())
    }
    fn by_ref_collect(&mut self) -> Result<usize, IVPError> {
        self.by_ref().collect::<Result<Vec<_>, _>>().map(|v| v.len())
    }
    fn take_burst(&mut self, n: usize, cb: &mut dyn FnMut(Item)) {
        for item in self.by_ref().take(n) {
            cb(conv::<T::Field, D>(item));
        }
    }
    fn nth0(&mut self) -> Option<Item> {
        self.nth(0).map(conv::<T::Field, D>)
    }
    fn walk(&mut self, kind: u8, cb: &mut dyn FnMut(Item)) {
        match kind {
            1 => self.by_ref().for_each(|item| cb(conv::<T::Field, D>(item))),
            2 => {
                let _ = self.by_ref().all(|item| {
                    let ok = item.is_ok();
                    cb(conv::<T::Field, D>(item));
                    ok
                });
            }
            3 => {
                let found = self.by_ref().find(|item| match item {
                    Ok((t, v)) => {
                        cb(Item::Ok { t: *t, len: v.len() });
                        false
                    }
                    Err(_) => true,
                });
                if let Some(item) = found {
                    cb(conv::<T::Field, D>(item));
                }
            }
            4 => {
                let _ = self.by_ref().position(|item| {
                    let is_err = item.is_err();
                    cb(conv::<T::Field, D>(item));
                    is_err
                });
            }
            _ => self.by_ref().fold((), |(), item| cb(conv::<T::Field, D>(item))),
        }
    }
    fn walk_owned(self: Box<Self>, kind: u8, cb: &mut dyn FnMut(Item)) {
        match kind {
            1 => (*self).for_each(|item| cb(conv::<T::Field, D>(item))),
            _ => (*self).fold((), |(), item| cb(conv::<T::Field, D>(item))),
        }
    }
    fn nth_m(&mut self, m: usize) -> Option<Item> {
        self.nth(m).map(conv::<T::Field, D>)
    }
    fn count_all(self: Box<Self>) -> usize {
        (*self).count()
    }
    fn last_item(self: Box<Self>) -> Option<Item> {
        (*self).last().map(conv::<T::Field, D>)
    }
    fn dt_bounds(&self) -> Option<(f64, f64)> {
        self.verif_solver().solver_bounds()
    }
}

// ---------------------------------------------------------------------------------------------
// erased builder

pub trait ErasedBuilder {
    /// Apply one setter. The real builder is consumed by the call; on `Err` or panic it is gone.
    fn apply(&mut self, op: &BOp) -> Outcome;
    fn alive(&self) -> bool;
    fn dt_bounds(&self) -> Option<(Option<f64>, Option<f64>)>;
    /// `solve(())`
    fn solve(&mut self) -> (Outcome, Option<Box<dyn ErasedIter>>);
}

struct BuilderBox<S, N, D, U> {
    b: Option<S>,
    hooks: Rc<dyn StubHooks>,
    n: usize,
    y0: f64,
    _p: std::marker::PhantomData<(N, D, U)>,
}

pub fn make_vec<N: Scalar, D: Dim>(n: usize, data: &[N]) -> BVector<N, D>
where
    DefaultAllocator: Allocator<N, D>,
{
    BVector::<N, D>::from_column_slice_generic(D::from_usize(n), U1::from_usize(1), data)
}

pub fn make_deriv<N: Scalar, D: Dim + 'static, U: SimData>(hooks: Rc<dyn StubHooks>) -> DerivBox<N, D, U>
where
    DefaultAllocator: Allocator<N, D>,
{
    let mut buf: Vec<N> = Vec::new();
    Box::new(move |t: f64, y: &[N], data: &mut U| {
        data.touch();
        // largest modulus of a component; +inf as soon as any component is not finite
        let ymax = y.iter().fold(0.0f64, |m, v| {
            let a = v.modulus();
            if a.is_finite() { m.max(a) } else { f64::INFINITY }
        });
        if let Some(e) = hooks.on_call(t, ymax) {
            return Err(e);
        }
        rhs(hooks.problem(), t, y, &mut buf);
        Ok(make_vec::<N, D>(y.len(), &buf))
    })
}

impl<S, N, D, U> ErasedBuilder for BuilderBox<S, N, D, U>
where
    N: Scalar,
    U: SimData,
    D: Dimension + 'static,
    DefaultAllocator: Allocator<N, D>,
    S: IVPSolver<
            'static,
            D,
            Error = IVPError,
            Field = N,
            RealField = f64,
            UserData = U,
            Derivative = DerivBox<N, D, U>,
        > + DtBounds
        + AsCalled<N, D, U, Iter = IVPIterator<D, <S as IVPSolver<'static, D>>::Solver>>
        + 'static,
    S::Solver: SolverBounds + 'static,
{
    fn apply(&mut self, op: &BOp) -> Outcome {
        let b = match self.b.take() {
            Some(b) => b,
            None => return Outcome::Panic,
        };
        let n = self.n;
        let y0 = self.y0;
        let hooks = self.hooks.clone();
        let r = catch_unwind(AssertUnwindSafe(move || -> Result<S, IVPError> {
            match *op {
                BOp::Tol(v) => b.c_tol(v),
                BOp::Max(v) => b.c_max(v),
                BOp::Min(v) => b.c_min(v),
                BOp::Start(v) => b.c_start(v),
                BOp::End(v) => b.c_end(v),
                BOp::IcSlice => b.c_ic_slice(&initial_state::<N>(n, y0)),
                BOp::IcVec => b.c_ic(make_vec::<N, D>(n, &initial_state::<N>(n, y0))),
                BOp::Deriv => Ok(b.c_deriv(make_deriv::<N, D, U>(hooks))),
                BOp::New | BOp::NewDyn(_) | BOp::Solve => unreachable!("not a setter"),
            }
        }));
        match r {
            Ok(Ok(nb)) => {
                self.b = Some(nb);
                Outcome::Ok
            }
            Ok(Err(e)) => Outcome::Err(ErrClass::of(&e)),
            Err(p) => panic_outcome(p),
        }
    }

    fn alive(&self) -> bool {
        self.b.is_some()
    }

    fn dt_bounds(&self) -> Option<(Option<f64>, Option<f64>)> {
        self.b.as_ref().and_then(|b| b.dt_bounds())
    }

    fn solve(&mut self) -> (Outcome, Option<Box<dyn ErasedIter>>) {
        let b = match self.b.take() {
            Some(b) => b,
            None => return (Outcome::Panic, None),
        };
        match catch_unwind(AssertUnwindSafe(move || b.c_solve(U::fresh()))) {
            Ok(Ok(it)) => (Outcome::Ok, Some(Box::new(it))),
            Ok(Err(e)) => (Outcome::Err(ErrClass::of(&e)), None),
            Err(p) => (panic_outcome(p), None),
        }
    }
}

/// A panic caught around a builder call: the simulator's own budget abort (a builder that calls
/// the derivative, e.g. a solve() that integrates eagerly, ran into the stub's call budget) is
/// not a panic of the code under test.
fn panic_outcome(p: Box<dyn std::any::Any + Send>) -> Outcome {
    if p.downcast_ref::<crate::stub::HarnessAbort>().is_some() {
        Outcome::Abort
    } else {
        Outcome::Panic
    }
}

struct Construct<'a> {
    ctor: &'a BOp,
    hooks: Rc<dyn StubHooks>,
    n: usize,
    y0: f64,
}

impl<'a> Visitor for Construct<'a> {
    type Out = (Outcome, Option<Box<dyn ErasedBuilder>>);
    fn visit<S, N, D, U>(self) -> Self::Out
    where
        N: Scalar,
        U: SimData,
        D: Dimension + 'static,
        DefaultAllocator: Allocator<N, D>,
        S: IVPSolver<
                'static,
                D,
                Error = IVPError,
                Field = N,
                RealField = f64,
                UserData = U,
                Derivative = DerivBox<N, D, U>,
            > + DtBounds
            + AsCalled<N, D, U, Iter = IVPIterator<D, <S as IVPSolver<'static, D>>::Solver>>
            + 'static,
        S::Solver: SolverBounds + 'static,
    {
        let ctor = *self.ctor;
        let r = catch_unwind(AssertUnwindSafe(move || -> Result<S, IVPError> {
            match ctor {
                BOp::New => S::c_new(),
                BOp::NewDyn(k) => S::c_new_dyn(k as usize),
                _ => unreachable!("not a constructor"),
            }
        }));
        match r {
            Ok(Ok(b)) => (
                Outcome::Ok,
                Some(Box::new(BuilderBox::<S, N, D, U> {
                    b: Some(b),
                    hooks: self.hooks,
                    n: self.n,
                    y0: self.y0,
                    _p: std::marker::PhantomData,
                })),
            ),
            Ok(Err(e)) => (Outcome::Err(ErrClass::of(&e)), None),
            Err(_) => (Outcome::Panic, None),
        }
    }
}

/// Run the constructor call `ctor` (`new()` or `new_dyn(n)`) of the given instantiation.
pub fn construct(
    kind: Kind,
    dim: DimMode,
    field: Field,
    data: DataMode,
    ctor: &BOp,
    hooks: Rc<dyn StubHooks>,
    y0: f64,
) -> (Outcome, Option<Box<dyn ErasedBuilder>>) {
    dispatch(kind, dim, field, data, Construct { ctor, hooks, n: dim.n as usize, y0 })
}
