//! The derivative seam: the simulated user function. It evaluates a smooth right-hand side,
//! counts calls, and returns `Err` exactly where the run's fault plan says so. Also: the error
//! payload types and the type-agnostic search for a fault tag inside a surfaced error.

use crate::spec::{Payload, Problem};
use nalgebra::ComplexField;
use num_complex::Complex;
use bacon_sci::ivp::{IVPError, IVPStatus};
use std::error::Error;
use std::fmt;

pub trait Scalar: ComplexField<RealField = f64> + Copy + 'static {
    fn from_re_im(re: f64, im: f64) -> Self;
}

impl Scalar for f64 {
    fn from_re_im(re: f64, _im: f64) -> Self {
        re
    }
}

impl Scalar for Complex<f64> {
    fn from_re_im(re: f64, im: f64) -> Self {
        Complex::new(re, im)
    }
}

/// Initial state of dimension n.
pub fn initial_state<N: Scalar>(n: usize, scale: f64) -> Vec<N> {
    (0..n)
        .map(|i| N::from_re_im(scale * (1.0 + 0.5 * i as f64), 0.3 * scale * (i as f64 + 1.0)))
        .collect()
}

/// Smooth right-hand sides. Every one is a function of (t, y) only.
pub fn rhs<N: Scalar>(p: Problem, t: f64, y: &[N], out: &mut Vec<N>) {
    let n = y.len();
    out.clear();
    for i in 0..n {
        let nx = y[(i + 1) % n];
        let v = match p {
            Problem::Zero => N::zero(),
            Problem::Linear => N::from_re_im(-(1.0 + 0.5 * i as f64), 0.7) * y[i],
            Problem::Rotation => {
                let s = if i % 2 == 0 { 1.0 } else { -1.0 };
                nx * N::from_real(s) + N::from_real(if i == 0 { t.sin() } else { 0.0 })
            }
            Problem::Riccati => N::from_real(t) - y[i] * y[i] + nx * N::from_real(0.1),
            Problem::Stiff => (y[i] - N::from_real(t.cos())) * N::from_real(-50.0),
            Problem::Quadratic => N::from_real(-2.0 * t + i as f64),
            Problem::Growing => y[i] * N::from_real(1.5),
            Problem::Oscillating => N::from_real((10.0 * t + i as f64).cos()),
            Problem::BlowUp => y[i].exp(),
            Problem::StiffCubic => y[i] * y[i] * y[i] * N::from_real(-1000.0),
        };
        out.push(v);
    }
}

// ---------------------------------------------------------------------------------------------
// error payloads

/// The typed error of the simulated user function.
#[derive(Debug)]
pub struct SimFault {
    pub tag: u64,
}

impl fmt::Display for SimFault {
    fn fmt(&self, f: &mut fmt::Formatter<'_>) -> fmt::Result {
        write!(f, "simfault:{:016x}", self.tag)
    }
}

impl Error for SimFault {}

/// An error that only refers to the fault through `source()`; its own text has no tag.
#[derive(Debug)]
pub struct NestedFault {
    inner: SimFault,
}

impl fmt::Display for NestedFault {
    fn fmt(&self, f: &mut fmt::Formatter<'_>) -> fmt::Result {
        write!(f, "model evaluation failed")
    }
}

impl Error for NestedFault {
    fn source(&self) -> Option<&(dyn Error + 'static)> {
        Some(&self.inner)
    }
}

/// A typed error that prints nothing.
#[derive(Debug)]
pub struct SilentFault {
    pub tag: u64,
}

impl fmt::Display for SilentFault {
    fn fmt(&self, _f: &mut fmt::Formatter<'_>) -> fmt::Result {
        Ok(())
    }
}

impl Error for SilentFault {}

/// A zero-sized error type.
#[derive(Debug)]
pub struct UnitFault;

impl fmt::Display for UnitFault {
    fn fmt(&self, f: &mut fmt::Formatter<'_>) -> fmt::Result {
        write!(f, "unit fault")
    }
}

impl Error for UnitFault {}

/// Tags are unique per run: instance number and call number.
pub fn tag_of(inst: u32, call: u64) -> u64 {
    ((inst as u64 + 1) << 40) | (call & ((1 << 40) - 1))
}

pub fn tag_inst(tag: u64) -> u32 {
    ((tag >> 40) as u32).wrapping_sub(1)
}

pub fn tag_call(tag: u64) -> u64 {
    tag & ((1 << 40) - 1)
}

pub fn make_payload(p: Payload, tag: u64) -> Box<dyn Error> {
    match p {
        Payload::Typed => Box::new(SimFault { tag }),
        Payload::Text => format!("lookup table out of range (simfault:{:016x})", tag).into(),
        Payload::Io => Box::new(std::io::Error::new(
            std::io::ErrorKind::Other,
            format!("simfault:{:016x}", tag),
        )),
        Payload::Nested => Box::new(NestedFault { inner: SimFault { tag } }),
        Payload::InnerIvp => Box::new(bacon_sci::ivp::IVPError::UserError(Box::new(SimFault { tag }))),
        Payload::Silent => Box::new(SilentFault { tag }),
        Payload::Unit => Box::new(UnitFault),
        Payload::IoInterrupted | Payload::IoWouldBlock | Payload::IoTimedOut => {
            Box::new(std::io::Error::new(io_kind(p), format!("simfault:{:016x}", tag)))
        }
        Payload::TextRetry => format!("temporary failure, transient, please retry (simfault:{:016x})", tag).into(),
        Payload::StatusDone => Box::new(IVPStatus::<IVPError>::Done),
        Payload::StatusRedo => Box::new(IVPStatus::<IVPError>::Redo),
        Payload::StatusFailure => Box::new(IVPStatus::<IVPError>::Failure(IVPError::UserError(Box::new(SimFault { tag })))),
        Payload::DimError => Box::new(bacon_sci::DimensionError::StaticOnDynamic),
        Payload::InnerMinDt => Box::new(IVPError::MinimumTimeDeltaExceeded),
        Payload::InnerMaxIter => Box::new(IVPError::MaximumIterationsExceeded),
        Payload::InnerSingular => Box::new(IVPError::SingularMatrix),
    }
}

fn io_kind(p: Payload) -> std::io::ErrorKind {
    match p {
        Payload::IoInterrupted => std::io::ErrorKind::Interrupted,
        Payload::IoWouldBlock => std::io::ErrorKind::WouldBlock,
        Payload::IoTimedOut => std::io::ErrorKind::TimedOut,
        _ => std::io::ErrorKind::Other,
    }
}

/// What can be found of the simulator's faults inside an error value.
#[derive(Debug, Default, Clone)]
pub struct Found {
    /// tags of `SimFault` objects reachable through the `source()` chain
    pub typed: Vec<u64>,
    /// tags inside `std::io::Error` objects reachable through the chain
    pub io: Vec<u64>,
    /// a `NestedFault` object is reachable
    pub nested: bool,
    /// tags appearing as text in the `Display` of any element of the chain
    pub text: Vec<u64>,
    /// tags of `SilentFault` objects reachable through the chain
    pub silent: Vec<u64>,
    /// a `UnitFault` is reachable through the chain
    pub unit: bool,
    /// number of `IVPError::UserError` elements in the chain (the item itself included)
    pub ivp_user_errors: usize,
    /// boxed `IVPStatus` values reachable through the chain: 1 Done, 2 Redo, 3 Failure;
    /// 4: a boxed `DimensionError`; 5, 6, 7: an `IVPError::MinimumTimeDeltaExceeded`,
    /// `MaximumIterationsExceeded`, `SingularMatrix` *below* the item itself in the chain
    pub status: Vec<u8>,
}

fn tags_in_text(s: &str, out: &mut Vec<u64>) {
    let pat = "simfault:";
    let mut rest = s;
    while let Some(i) = rest.find(pat) {
        let after = &rest[i + pat.len()..];
        if after.len() >= 16 {
            if let Ok(t) = u64::from_str_radix(&after[..16], 16) {
                if !out.contains(&t) {
                    out.push(t);
                }
            }
        }
        rest = after;
    }
}

/// Walk `e` and its `source()` chain (bounded) and collect every trace of a simulator fault.
pub fn scan_error(e: &(dyn Error + 'static)) -> Found {
    let mut f = Found::default();
    let mut cur: Option<&(dyn Error + 'static)> = Some(e);
    let mut depth = 0;
    while let Some(x) = cur {
        if let Some(sf) = x.downcast_ref::<SimFault>() {
            f.typed.push(sf.tag);
        }
        if let Some(io) = x.downcast_ref::<std::io::Error>() {
            tags_in_text(&io.to_string(), &mut f.io);
        }
        if x.downcast_ref::<NestedFault>().is_some() {
            f.nested = true;
        }
        if let Some(sf) = x.downcast_ref::<SilentFault>() {
            f.silent.push(sf.tag);
        }
        if x.downcast_ref::<UnitFault>().is_some() {
            f.unit = true;
        }
        if let Some(bacon_sci::ivp::IVPError::UserError(_)) = x.downcast_ref::<bacon_sci::ivp::IVPError>() {
            f.ivp_user_errors += 1;
        }
        if x.downcast_ref::<bacon_sci::DimensionError>().is_some() {
            f.status.push(4);
        }
        if depth > 0 {
            match x.downcast_ref::<IVPError>() {
                Some(IVPError::MinimumTimeDeltaExceeded) => f.status.push(5),
                Some(IVPError::MaximumIterationsExceeded) => f.status.push(6),
                Some(IVPError::SingularMatrix) => f.status.push(7),
                _ => {}
            }
        }
        if let Some(st) = x.downcast_ref::<IVPStatus<IVPError>>() {
            f.status.push(match st {
                IVPStatus::Done => 1,
                IVPStatus::Redo => 2,
                IVPStatus::Failure(_) => 3,
            });
        }
        tags_in_text(&x.to_string(), &mut f.text);
        depth += 1;
        if depth > 16 {
            break;
        }
        cur = x.source();
    }
    f
}

impl Found {
    /// Does the error carry the fault `tag` that was returned with payload kind `p`?
    /// Strict: the error object itself (not only its text) must be reachable, for the payload
    /// kinds that are objects.
    pub fn carries(&self, p: Payload, tag: u64) -> bool {
        match p {
            Payload::Typed => self.typed.contains(&tag),
            Payload::Io => self.io.contains(&tag),
            Payload::Nested => self.nested && self.typed.contains(&tag),
            Payload::Text => self.text.contains(&tag),
            // the item itself is one IVPError::UserError, the user's error is a second one
            Payload::InnerIvp => self.ivp_user_errors >= 2 && self.typed.contains(&tag),
            Payload::Silent => self.silent.contains(&tag),
            Payload::Unit => self.unit,
            Payload::IoInterrupted | Payload::IoWouldBlock | Payload::IoTimedOut => self.io.contains(&tag),
            Payload::TextRetry => self.text.contains(&tag),
            Payload::StatusDone => self.status.contains(&1),
            Payload::StatusRedo => self.status.contains(&2),
            Payload::StatusFailure => self.status.contains(&3) && self.typed.contains(&tag),
            Payload::DimError => self.status.contains(&4),
            Payload::InnerMinDt => self.status.contains(&5),
            Payload::InnerMaxIter => self.status.contains(&6),
            Payload::InnerSingular => self.status.contains(&7),
        }
    }
    pub fn all_tags(&self) -> Vec<u64> {
        let mut v = self.typed.clone();
        for t in self.io.iter().chain(self.text.iter()).chain(self.silent.iter()) {
            if !v.contains(t) {
                v.push(*t);
            }
        }
        v
    }
}

/// Is `b` (the boxed error held directly by `IVPError::UserError`) the very error object the
/// stub returned for `tag` with payload kind `p`? No wrapper, no re-boxing, no stringification.
pub fn is_original(b: &(dyn Error + 'static), p: Payload, tag: u64) -> bool {
    match p {
        Payload::Typed => b.downcast_ref::<SimFault>().map(|f| f.tag) == Some(tag),
        Payload::Io => b
            .downcast_ref::<std::io::Error>()
            .map(|e| e.to_string() == format!("simfault:{:016x}", tag))
            .unwrap_or(false),
        Payload::Nested => b.downcast_ref::<NestedFault>().map(|n| n.inner.tag) == Some(tag),
        Payload::Text => {
            b.source().is_none()
                && b.to_string() == format!("lookup table out of range (simfault:{:016x})", tag)
                && b.downcast_ref::<SimFault>().is_none()
        }
        Payload::InnerIvp => match b.downcast_ref::<bacon_sci::ivp::IVPError>() {
            Some(bacon_sci::ivp::IVPError::UserError(inner)) => inner.downcast_ref::<SimFault>().map(|f| f.tag) == Some(tag),
            _ => false,
        },
        Payload::Silent => b.downcast_ref::<SilentFault>().map(|f| f.tag) == Some(tag),
        Payload::Unit => b.downcast_ref::<UnitFault>().is_some(),
        Payload::IoInterrupted | Payload::IoWouldBlock | Payload::IoTimedOut => b
            .downcast_ref::<std::io::Error>()
            .map(|e| e.kind() == io_kind(p) && e.to_string() == format!("simfault:{:016x}", tag))
            .unwrap_or(false),
        Payload::TextRetry => {
            b.source().is_none()
                && b.to_string() == format!("temporary failure, transient, please retry (simfault:{:016x})", tag)
        }
        Payload::StatusDone => matches!(b.downcast_ref::<IVPStatus<IVPError>>(), Some(IVPStatus::Done)),
        Payload::StatusRedo => matches!(b.downcast_ref::<IVPStatus<IVPError>>(), Some(IVPStatus::Redo)),
        Payload::DimError => matches!(b.downcast_ref::<bacon_sci::DimensionError>(), Some(bacon_sci::DimensionError::StaticOnDynamic)),
        Payload::InnerMinDt => matches!(b.downcast_ref::<IVPError>(), Some(IVPError::MinimumTimeDeltaExceeded)),
        Payload::InnerMaxIter => matches!(b.downcast_ref::<IVPError>(), Some(IVPError::MaximumIterationsExceeded)),
        Payload::InnerSingular => matches!(b.downcast_ref::<IVPError>(), Some(IVPError::SingularMatrix)),
        Payload::StatusFailure => match b.downcast_ref::<IVPStatus<IVPError>>() {
            Some(IVPStatus::Failure(IVPError::UserError(inner))) => inner.downcast_ref::<SimFault>().map(|f| f.tag) == Some(tag),
            _ => false,
        },
    }
}

/// Panic payload used by the stub when the hard derivative-call budget is exhausted, so that a
/// solver that never stops calling the user function ends the run instead of hanging it.
pub struct HarnessAbort;
