//! The replay structure: everything that decides one simulated run, as plain data.
//! `execute(spec)` in `run.rs` is a pure function of a `RunSpec` and the code under test.

use crate::json::J;

#[derive(Clone, Copy, Debug, PartialEq, Eq, Hash, PartialOrd, Ord)]
pub enum Kind {
    Euler,
    Rk45,
    Rk23,
    Adams5,
    Adams3,
    Bdf6,
    Bdf2,
}

pub const KINDS: [Kind; 7] = [
    Kind::Euler,
    Kind::Rk45,
    Kind::Rk23,
    Kind::Adams5,
    Kind::Adams3,
    Kind::Bdf6,
    Kind::Bdf2,
];

impl Kind {
    pub fn name(self) -> &'static str {
        match self {
            Kind::Euler => "Euler",
            Kind::Rk45 => "RungeKutta45",
            Kind::Rk23 => "RungeKutta23",
            Kind::Adams5 => "Adams5",
            Kind::Adams3 => "Adams3",
            Kind::Bdf6 => "BDF6",
            Kind::Bdf2 => "BDF2",
        }
    }
    pub fn from_name(s: &str) -> Option<Kind> {
        KINDS.iter().copied().find(|k| k.name() == s)
    }
    pub fn idx(self) -> usize {
        KINDS.iter().position(|k| *k == self).unwrap()
    }
    pub fn is_euler(self) -> bool {
        self == Kind::Euler
    }
}

/// Static `Const<n>` or run-time `Dyn(n)` state dimension, n in 1..=3.
#[derive(Clone, Copy, Debug, PartialEq, Eq, Hash, PartialOrd, Ord)]
pub struct DimMode {
    pub dynamic: bool,
    pub n: u8,
}

impl DimMode {
    pub fn name(self) -> String {
        if self.dynamic {
            format!("Dyn({})", self.n)
        } else {
            format!("Const<{}>", self.n)
        }
    }
    pub fn from_name(s: &str) -> Option<DimMode> {
        // static dimensions are instantiated for 1..=4; a run-time dimension can be anything
        for dynamic in [false, true] {
            for n in 1..=255u8 {
                let d = DimMode { dynamic, n };
                if d.name() == s && (dynamic || n <= 4) {
                    return Some(d);
                }
            }
        }
        None
    }
}

#[derive(Clone, Copy, Debug, PartialEq, Eq, Hash, PartialOrd, Ord)]
pub enum Field {
    Real,
    Complex,
}

impl Field {
    pub fn name(self) -> &'static str {
        match self {
            Field::Real => "f64",
            Field::Complex => "Complex<f64>",
        }
    }
    pub fn from_name(s: &str) -> Option<Field> {
        match s {
            "f64" => Some(Field::Real),
            "Complex<f64>" => Some(Field::Complex),
            _ => None,
        }
    }
}

/// Type of the user data handed to `solve()`: `()` or a non-zero-sized counter the derivative mutates.
#[derive(Clone, Copy, Debug, PartialEq, Eq, Hash, PartialOrd, Ord)]
pub enum DataMode {
    Unit,
    Counter,
}

impl DataMode {
    pub fn name(self) -> &'static str {
        match self {
            DataMode::Unit => "()",
            DataMode::Counter => "Counter",
        }
    }
    pub fn from_name(s: &str) -> Option<DataMode> {
        match s {
            "()" => Some(DataMode::Unit),
            "Counter" => Some(DataMode::Counter),
            _ => None,
        }
    }
}

/// One call made by the simulated user of a builder.
#[derive(Clone, Copy, Debug, PartialEq)]
pub enum BOp {
    /// `S::new()`
    New,
    /// `S::new_dyn(n)`
    NewDyn(u8),
    Tol(f64),
    Max(f64),
    Min(f64),
    Start(f64),
    End(f64),
    /// `with_initial_conditions_slice(&y0)` with a slice of the right length
    IcSlice,
    /// `with_initial_conditions(vector)` with a vector of the right dimension
    IcVec,
    /// `with_derivative(stub)`
    Deriv,
    /// `solve(())`
    Solve,
}

impl BOp {
    pub fn tag(&self) -> &'static str {
        match self {
            BOp::New => "new",
            BOp::NewDyn(_) => "new_dyn",
            BOp::Tol(_) => "with_tolerance",
            BOp::Max(_) => "with_maximum_dt",
            BOp::Min(_) => "with_minimum_dt",
            BOp::Start(_) => "with_initial_time",
            BOp::End(_) => "with_ending_time",
            BOp::IcSlice => "with_initial_conditions_slice",
            BOp::IcVec => "with_initial_conditions",
            BOp::Deriv => "with_derivative",
            BOp::Solve => "solve",
        }
    }
    pub fn code(&self) -> u8 {
        match self {
            BOp::New => 0,
            BOp::NewDyn(_) => 1,
            BOp::Tol(_) => 2,
            BOp::Max(_) => 3,
            BOp::Min(_) => 4,
            BOp::Start(_) => 5,
            BOp::End(_) => 6,
            BOp::IcSlice => 7,
            BOp::IcVec => 8,
            BOp::Deriv => 9,
            BOp::Solve => 10,
        }
    }
    pub fn arg_bits(&self) -> u64 {
        match self {
            BOp::NewDyn(n) => *n as u64,
            BOp::Tol(v) | BOp::Max(v) | BOp::Min(v) | BOp::Start(v) | BOp::End(v) => v.to_bits(),
            _ => 0,
        }
    }
    pub fn to_json(&self) -> J {
        match self {
            BOp::NewDyn(n) => J::A(vec![J::s(self.tag()), J::U(*n as u64)]),
            BOp::Tol(v) | BOp::Max(v) | BOp::Min(v) | BOp::Start(v) | BOp::End(v) => {
                J::A(vec![J::s(self.tag()), J::F(*v)])
            }
            _ => J::A(vec![J::s(self.tag())]),
        }
    }
    pub fn from_json(j: &J) -> Result<BOp, String> {
        let a = j.as_arr().ok_or("op: not an array")?;
        let tag = a.first().and_then(|x| x.as_str()).ok_or("op: no tag")?;
        let num = || a.get(1).and_then(|x| x.as_f64()).ok_or_else(|| format!("op {}: no value", tag));
        Ok(match tag {
            "new" => BOp::New,
            "new_dyn" => BOp::NewDyn(num()? as u8),
            "with_tolerance" => BOp::Tol(num()?),
            "with_maximum_dt" => BOp::Max(num()?),
            "with_minimum_dt" => BOp::Min(num()?),
            "with_initial_time" => BOp::Start(num()?),
            "with_ending_time" => BOp::End(num()?),
            "with_initial_conditions_slice" => BOp::IcSlice,
            "with_initial_conditions" => BOp::IcVec,
            "with_derivative" => BOp::Deriv,
            "solve" => BOp::Solve,
            _ => return Err(format!("unknown op {}", tag)),
        })
    }
}

/// Right-hand side family (the workload running under the faults).
#[derive(Clone, Copy, Debug, PartialEq, Eq, Hash, PartialOrd, Ord)]
pub enum Problem {
    /// y' = 0 (error estimate 0: growth path, history cleared, start-up repeated)
    Zero,
    /// y_i' = lambda_i y_i
    Linear,
    /// coupled rotation with forcing
    Rotation,
    /// y_i' = t - y_i^2 + 0.1 y_{i+1}
    Riccati,
    /// y_i' = -50 (y_i - cos t): forces rejected trial steps
    Stiff,
    /// y_i' = -2 t + i (state independent)
    Quadratic,
    /// y_i' = +1.5 y_i (growing)
    Growing,
    /// y_i' = cos(10 t + i) (oscillatory, state independent)
    Oscillating,
    /// y_i' = exp(y_i): finite-time blow-up; trial stages overflow to non-finite states
    BlowUp,
    /// y_i' = -1000 y_i^3: explicit start-up steps of usual length are unstable and overflow
    StiffCubic,
}

pub const PROBLEMS: [Problem; 10] = [
    Problem::Zero,
    Problem::Linear,
    Problem::Rotation,
    Problem::Riccati,
    Problem::Stiff,
    Problem::Quadratic,
    Problem::Growing,
    Problem::Oscillating,
    Problem::BlowUp,
    Problem::StiffCubic,
];

impl Problem {
    pub fn name(self) -> &'static str {
        match self {
            Problem::Zero => "zero",
            Problem::Linear => "linear",
            Problem::Rotation => "rotation",
            Problem::Riccati => "riccati",
            Problem::Stiff => "stiff",
            Problem::Quadratic => "quadratic",
            Problem::Growing => "growing",
            Problem::Oscillating => "oscillating",
            Problem::BlowUp => "blow_up",
            Problem::StiffCubic => "stiff_cubic",
        }
    }
    /// Problems on which solvers are expected to reach non-finite states.
    pub fn overflows(self) -> bool {
        matches!(self, Problem::BlowUp | Problem::StiffCubic)
    }
    pub fn from_name(s: &str) -> Option<Problem> {
        PROBLEMS.iter().copied().find(|p| p.name() == s)
    }
    /// simplicity rank for the minimiser (lower is simpler)
    pub fn rank(self) -> usize {
        PROBLEMS.iter().position(|p| *p == self).unwrap()
    }
}

/// Which derivative calls (1-based call numbers of this instance) return `Err`.
#[derive(Clone, Debug, PartialEq, Eq)]
pub enum FaultPlan {
    None,
    /// only call k fails
    Transient(u64),
    /// every call >= k fails
    Permanent(u64),
    /// calls k..k+n-1 fail
    Burst(u64, u64),
    /// the listed calls fail (strictly increasing)
    Scattered(Vec<u64>),
    /// domain failure: every call whose time argument is greater than the threshold fails
    /// (threshold stored as the bits of an f64)
    TimeAbove(u64),
    /// domain failure: every call whose state has a component of modulus greater than the
    /// threshold fails (bits of an f64)
    NormAbove(u64),
    /// domain failure: every call whose time argument lies strictly inside (a, b) fails
    TimeWindow(u64, u64),
}

impl FaultPlan {
    /// `t` is the time argument of the call, `ymax` the largest modulus of a state component.
    pub fn fails(&self, call: u64, t: f64, ymax: f64) -> bool {
        match self {
            FaultPlan::TimeAbove(b) => t > f64::from_bits(*b),
            FaultPlan::NormAbove(b) => ymax > f64::from_bits(*b),
            FaultPlan::TimeWindow(a, b) => t > f64::from_bits(*a) && t < f64::from_bits(*b),
            FaultPlan::None => false,
            FaultPlan::Transient(k) => call == *k,
            FaultPlan::Permanent(k) => call >= *k,
            FaultPlan::Burst(k, n) => call >= *k && call < k + n,
            FaultPlan::Scattered(ks) => ks.binary_search(&call).is_ok(),
        }
    }
    pub fn first(&self) -> Option<u64> {
        match self {
            FaultPlan::None => None,
            FaultPlan::Transient(k) | FaultPlan::Permanent(k) | FaultPlan::Burst(k, _) => Some(*k),
            FaultPlan::Scattered(ks) => ks.first().copied(),
            FaultPlan::TimeAbove(_) | FaultPlan::NormAbove(_) | FaultPlan::TimeWindow(_, _) => None,
        }
    }
    /// Does the plan depend on the arguments of the call rather than on its number?
    pub fn is_domain(&self) -> bool {
        matches!(self, FaultPlan::TimeAbove(_) | FaultPlan::NormAbove(_) | FaultPlan::TimeWindow(_, _))
    }
    pub fn kind_name(&self) -> &'static str {
        match self {
            FaultPlan::None => "none",
            FaultPlan::Transient(_) => "transient",
            FaultPlan::Permanent(_) => "permanent",
            FaultPlan::Burst(_, _) => "burst",
            FaultPlan::Scattered(_) => "scattered",
            FaultPlan::TimeAbove(_) => "domain_time_above",
            FaultPlan::NormAbove(_) => "domain_state_above",
            FaultPlan::TimeWindow(_, _) => "domain_time_window",
        }
    }
    pub fn to_json(&self) -> J {
        match self {
            FaultPlan::None => J::A(vec![J::s("none")]),
            FaultPlan::Transient(k) => J::A(vec![J::s("transient"), J::U(*k)]),
            FaultPlan::Permanent(k) => J::A(vec![J::s("permanent"), J::U(*k)]),
            FaultPlan::Burst(k, n) => J::A(vec![J::s("burst"), J::U(*k), J::U(*n)]),
            FaultPlan::Scattered(ks) => {
                let mut v = vec![J::s("scattered")];
                v.extend(ks.iter().map(|k| J::U(*k)));
                J::A(v)
            }
            FaultPlan::TimeAbove(b) => J::A(vec![J::s("domain_time_above"), J::F(f64::from_bits(*b))]),
            FaultPlan::NormAbove(b) => J::A(vec![J::s("domain_state_above"), J::F(f64::from_bits(*b))]),
            FaultPlan::TimeWindow(a, b) => {
                J::A(vec![J::s("domain_time_window"), J::F(f64::from_bits(*a)), J::F(f64::from_bits(*b))])
            }
        }
    }
    pub fn from_json(j: &J) -> Result<FaultPlan, String> {
        let a = j.as_arr().ok_or("plan: not an array")?;
        let tag = a.first().and_then(|x| x.as_str()).ok_or("plan: no tag")?;
        let n = |i: usize| a.get(i).and_then(|x| x.as_u64()).ok_or("plan: missing number");
        let f = |i: usize| a.get(i).and_then(|x| x.as_f64()).ok_or("plan: missing threshold");
        Ok(match tag {
            "none" => FaultPlan::None,
            "transient" => FaultPlan::Transient(n(1)?),
            "permanent" => FaultPlan::Permanent(n(1)?),
            "burst" => FaultPlan::Burst(n(1)?, n(2)?),
            "scattered" => {
                let mut ks = Vec::new();
                for x in &a[1..] {
                    ks.push(x.as_u64().ok_or("plan: bad call number")?);
                }
                FaultPlan::Scattered(ks)
            }
            "domain_time_above" => FaultPlan::TimeAbove(f(1)?.to_bits()),
            "domain_state_above" => FaultPlan::NormAbove(f(1)?.to_bits()),
            "domain_time_window" => FaultPlan::TimeWindow(f(1)?.to_bits(), f(2)?.to_bits()),
            _ => return Err(format!("unknown plan {}", tag)),
        })
    }
}

/// Concrete type of the error the stub returns; "carrying that error" must not depend on it.
#[derive(Clone, Copy, Debug, PartialEq, Eq, Hash, PartialOrd, Ord)]
pub enum Payload {
    /// `Box::new(SimFault { tag })`
    Typed,
    /// `format!("simfault:{tag:016x}").into()` (String-backed `Box<dyn Error>`)
    Text,
    /// `std::io::Error::new(Other, "simfault:...")`
    Io,
    /// an error whose `source()` is a `SimFault`
    Nested,
    /// the user's error is itself a bacon error: `IVPError::UserError(Box<SimFault>)`, as a
    /// derivative that runs an inner solver and propagates its error with `?` returns
    InnerIvp,
    /// a typed error whose `Display` is empty
    Silent,
    /// a zero-sized error type (boxing it does not allocate; it cannot carry a tag)
    Unit,
    /// `std::io::Error` of a kind that generic code likes to treat as retryable
    IoInterrupted,
    IoWouldBlock,
    IoTimedOut,
    /// a string-backed error whose text says "temporary failure, retry"
    TextRetry,
    /// the user's error is one of the crate's own *status* values, boxed (a derivative layered on
    /// another solver that hands its status on): `IVPStatus::<IVPError>::Done`
    StatusDone,
    /// `IVPStatus::<IVPError>::Redo`
    StatusRedo,
    /// `IVPStatus::Failure(IVPError::UserError(Box<SimFault>))`
    StatusFailure,
    /// the crate's other public error type, boxed: `DimensionError::StaticOnDynamic` (a
    /// dimension-generic right-hand side that calls `D::dim()?`)
    DimError,
    /// one of the crate's own solver failures, boxed, as a derivative that runs an inner solver
    /// and hands its error on returns: `IVPError::MinimumTimeDeltaExceeded`
    InnerMinDt,
    /// `IVPError::MaximumIterationsExceeded`
    InnerMaxIter,
    /// `IVPError::SingularMatrix`
    InnerSingular,
}

pub const PAYLOADS: [Payload; 18] = [
    Payload::Typed,
    Payload::Text,
    Payload::Io,
    Payload::Nested,
    Payload::InnerIvp,
    Payload::Silent,
    Payload::Unit,
    Payload::IoInterrupted,
    Payload::IoWouldBlock,
    Payload::IoTimedOut,
    Payload::TextRetry,
    Payload::StatusDone,
    Payload::StatusRedo,
    Payload::StatusFailure,
    Payload::DimError,
    Payload::InnerMinDt,
    Payload::InnerMaxIter,
    Payload::InnerSingular,
];

impl Payload {
    pub fn name(self) -> &'static str {
        match self {
            Payload::Typed => "typed",
            Payload::Text => "text",
            Payload::Io => "io",
            Payload::Nested => "nested",
            Payload::InnerIvp => "inner_ivp_error",
            Payload::Silent => "silent",
            Payload::Unit => "unit",
            Payload::IoInterrupted => "io_interrupted",
            Payload::IoWouldBlock => "io_would_block",
            Payload::IoTimedOut => "io_timed_out",
            Payload::TextRetry => "text_retry",
            Payload::StatusDone => "boxed_status_done",
            Payload::StatusRedo => "boxed_status_redo",
            Payload::StatusFailure => "boxed_status_failure",
            Payload::DimError => "boxed_dimension_error",
            Payload::InnerMinDt => "boxed_minimum_time_delta_exceeded",
            Payload::InnerMaxIter => "boxed_maximum_iterations_exceeded",
            Payload::InnerSingular => "boxed_singular_matrix",
        }
    }
    /// Can an error of this kind be told apart from another error of the same kind? (The
    /// zero-sized error and the bare status values carry no call number, so with them a solver
    /// that surfaces a later error instead of the first cannot be noticed.)
    pub fn has_tag(self) -> bool {
        !matches!(
            self,
            Payload::Unit
                | Payload::StatusDone
                | Payload::StatusRedo
                | Payload::DimError
                | Payload::InnerMinDt
                | Payload::InnerMaxIter
                | Payload::InnerSingular
        )
    }
    pub fn from_name(s: &str) -> Option<Payload> {
        PAYLOADS.iter().copied().find(|p| p.name() == s)
    }
}

/// How the simulated consumer drives the iterator.
#[derive(Clone, Copy, Debug, PartialEq, Eq, Hash, PartialOrd, Ord)]
pub enum Drive {
    /// call `next()` one at a time
    Poll,
    /// `collect_vec()`
    CollectVec,
    /// `by_ref().collect::<Result<Vec<_>,_>>()`, then keep polling
    ByRefCollect,
    /// `for item in it.by_ref().take(n)` bursts, n given, then keep polling
    TakeBursts(u8),
    /// `it.nth(0)` one at a time
    Nth0,
    /// an internal-iteration method on `it.by_ref()`, then keep polling. The kinds
    /// (`WALK_NAMES`): 0 `fold` and 1 `for_each` see every item up to the first `None`;
    /// 2 `all(|x| x.is_ok())`, 3 `find(|x| x.is_err())` and 4 `position(|x| x.is_err())` stop at the first `Err`
    Walk(u8),
    /// `it.fold(..)` (kind 0) or `it.for_each(..)` (kind 1) BY VALUE. `by_ref()` does not forward
    /// these two to an override of the iterator's own; the by-value call does.
    WalkOwned(u8),
    /// `next()` until the first `Err` or `None`, then one such method on what is left (after an
    /// `Err` it must see nothing), then keep polling
    PollThenWalk(u8),
    /// `next()` until the first `Err` or `None`, then `collect_vec()` on the same iterator
    PollThenCollect,
    /// `next()` n times (or until the end if that comes first), then `collect_vec()` on the rest
    PollNThenCollect(u8),
    /// `next()` until the first `Err` or `None`, then `count()` on the same iterator (by value;
    /// `count`, `for_each`, `sum`, `max_by` ... are all built on `fold`)
    PollThenCount,
    /// `next()` until the first `Err` or `None`, then `last()` on the same iterator
    PollThenLast,
    /// `next()` until the first `Err` or `None`, then `nth(m)` for the polls after the end
    PollThenNth(u8),
    /// `it.nth(m)` with m >= 1 (what `skip` and `step_by` are built on), compared with the
    /// provided implementation over `next()`
    NthSkip(u8),
    /// `it.count()`, compared likewise
    Count,
    /// `it.last()`, compared likewise
    Last,
}

pub const WALK_NAMES: [&str; 5] = ["fold", "for_each", "all", "find", "position"];

impl Drive {
    pub fn name(self) -> String {
        match self {
            Drive::Poll => "poll".into(),
            Drive::CollectVec => "collect_vec".into(),
            Drive::ByRefCollect => "by_ref_collect".into(),
            Drive::TakeBursts(n) => format!("take_bursts:{}", n),
            Drive::Nth0 => "nth0".into(),
            Drive::Walk(k) => WALK_NAMES[(k as usize).min(4)].into(),
            Drive::PollThenWalk(k) => format!("poll_then_{}", WALK_NAMES[(k as usize).min(4)]),
            Drive::WalkOwned(k) => format!("{}_by_value", WALK_NAMES[(k as usize).min(1)]),
            Drive::PollThenCollect => "poll_then_collect_vec".into(),
            Drive::PollNThenCollect(n) => format!("poll_n_then_collect_vec:{}", n),
            Drive::PollThenCount => "poll_then_count".into(),
            Drive::PollThenLast => "poll_then_last".into(),
            Drive::PollThenNth(m) => format!("poll_then_nth:{}", m),
            Drive::NthSkip(m) => format!("nth:{}", m),
            Drive::Count => "count".into(),
            Drive::Last => "last".into(),
        }
    }
    pub fn from_name(s: &str) -> Option<Drive> {
        match s {
            "poll" => Some(Drive::Poll),
            "collect_vec" => Some(Drive::CollectVec),
            "by_ref_collect" => Some(Drive::ByRefCollect),
            "nth0" => Some(Drive::Nth0),
            "fold" => Some(Drive::Walk(0)),
            "for_each" => Some(Drive::Walk(1)),
            "all" => Some(Drive::Walk(2)),
            "find" => Some(Drive::Walk(3)),
            "position" => Some(Drive::Walk(4)),
            "fold_by_value" => Some(Drive::WalkOwned(0)),
            "for_each_by_value" => Some(Drive::WalkOwned(1)),
            "poll_then_fold" => Some(Drive::PollThenWalk(0)),
            "poll_then_for_each" => Some(Drive::PollThenWalk(1)),
            "poll_then_all" => Some(Drive::PollThenWalk(2)),
            "poll_then_find" => Some(Drive::PollThenWalk(3)),
            "poll_then_position" => Some(Drive::PollThenWalk(4)),
            "poll_then_collect_vec" => Some(Drive::PollThenCollect),
            "poll_then_count" => Some(Drive::PollThenCount),
            "poll_then_last" => Some(Drive::PollThenLast),
            "count" => Some(Drive::Count),
            "last" => Some(Drive::Last),
            _ if s.starts_with("poll_n_then_collect_vec:") => s.strip_prefix("poll_n_then_collect_vec:").and_then(|n| n.parse().ok()).map(Drive::PollNThenCollect),
            _ if s.starts_with("poll_then_nth:") => s.strip_prefix("poll_then_nth:").and_then(|n| n.parse().ok()).map(Drive::PollThenNth),
            _ if s.starts_with("nth:") => s.strip_prefix("nth:").and_then(|n| n.parse().ok()).map(Drive::NthSkip),
            _ => s
                .strip_prefix("take_bursts:")
                .and_then(|n| n.parse().ok())
                .map(Drive::TakeBursts),
        }
    }
}

#[derive(Clone, Debug, PartialEq)]
pub struct InstSpec {
    pub kind: Kind,
    pub dim: DimMode,
    pub field: Field,
    pub data: DataMode,
    /// constructor first, then setters, optionally `Solve` last
    pub ops: Vec<BOp>,
    pub problem: Problem,
    /// scale of the initial state
    pub y0: f64,
    pub plan: FaultPlan,
    pub payload: Payload,
    pub drive: Drive,
    /// polls made after the iterator has ended (after `None` or after the `Err`)
    pub extra_polls: u8,
    /// if set, every `nested_every`-th derivative call of this instance polls the next
    /// instance of the run once (a derivative that itself advances another solver)
    pub nested_every: u32,
}

#[derive(Clone, Debug, PartialEq)]
pub struct RunSpec {
    pub instances: Vec<InstSpec>,
    /// 0 = round-robin; otherwise the stream SplitMix64(sched_seed) picks which live
    /// instance the consumer polls next
    pub sched_seed: u64,
    /// instances are built and driven one after the other (each to its end before the next is
    /// even built) instead of being built up front and polled in an interleaved order
    pub phased: bool,
    /// compare every instance of a multi-instance run with a run of it alone, taken before the
    /// joint run (clause F5). Off only for the hermeticity gate, whose oracle is "instances with
    /// identical specifications have identical histories" and whose first instances must meet
    /// a process in which nothing has run yet.
    pub solo_baselines: bool,
}

impl InstSpec {
    pub fn to_json(&self) -> J {
        J::obj(vec![
            ("solver", J::s(self.kind.name())),
            ("dimension", J::S(self.dim.name())),
            ("field", J::s(self.field.name())),
            ("user_data", J::s(self.data.name())),
            ("ops", J::A(self.ops.iter().map(|o| o.to_json()).collect())),
            ("problem", J::s(self.problem.name())),
            ("y0_scale", J::F(self.y0)),
            ("fault_plan", self.plan.to_json()),
            ("payload", J::s(self.payload.name())),
            ("drive", J::S(self.drive.name())),
            ("extra_polls", J::U(self.extra_polls as u64)),
            ("nested_every", J::U(self.nested_every as u64)),
        ])
    }
    pub fn from_json(j: &J) -> Result<InstSpec, String> {
        let s = |k: &str| j.get(k).and_then(|x| x.as_str()).ok_or(format!("instance: missing {}", k));
        let mut ops = Vec::new();
        for o in j.get("ops").and_then(|x| x.as_arr()).ok_or("instance: missing ops")? {
            ops.push(BOp::from_json(o)?);
        }
        Ok(InstSpec {
            kind: Kind::from_name(s("solver")?).ok_or("bad solver")?,
            dim: DimMode::from_name(s("dimension")?).ok_or("bad dimension")?,
            field: Field::from_name(s("field")?).ok_or("bad field")?,
            data: j.get("user_data").and_then(|x| x.as_str()).and_then(DataMode::from_name).unwrap_or(DataMode::Unit),
            ops,
            problem: Problem::from_name(s("problem")?).ok_or("bad problem")?,
            y0: j.get("y0_scale").and_then(|x| x.as_f64()).ok_or("missing y0_scale")?,
            plan: FaultPlan::from_json(j.get("fault_plan").ok_or("missing fault_plan")?)?,
            payload: Payload::from_name(s("payload")?).ok_or("bad payload")?,
            drive: Drive::from_name(s("drive")?).ok_or("bad drive")?,
            extra_polls: j.get("extra_polls").and_then(|x| x.as_u64()).ok_or("missing extra_polls")? as u8,
            nested_every: j.get("nested_every").and_then(|x| x.as_u64()).unwrap_or(0) as u32,
        })
    }

    /// The configuration the setters establish if every call is accepted (last call wins).
    pub fn config(&self) -> Config {
        let mut c = Config::default();
        for op in &self.ops {
            match *op {
                BOp::Tol(v) => c.tol = Some(v),
                BOp::Max(v) => c.max = Some(v),
                BOp::Min(v) => c.min = Some(v),
                BOp::Start(v) => c.start = Some(v),
                BOp::End(v) => c.end = Some(v),
                _ => {}
            }
        }
        c
    }
}

#[derive(Clone, Copy, Debug, Default, PartialEq)]
pub struct Config {
    pub tol: Option<f64>,
    pub max: Option<f64>,
    pub min: Option<f64>,
    pub start: Option<f64>,
    pub end: Option<f64>,
}

impl RunSpec {
    pub fn to_json(&self) -> J {
        J::obj(vec![
            ("instances", J::A(self.instances.iter().map(|i| i.to_json()).collect())),
            ("sched_seed", J::U(self.sched_seed)),
            ("phased", J::Bool(self.phased)),
            ("solo_baselines", J::Bool(self.solo_baselines)),
        ])
    }
    pub fn from_json(j: &J) -> Result<RunSpec, String> {
        let mut instances = Vec::new();
        for i in j.get("instances").and_then(|x| x.as_arr()).ok_or("run: missing instances")? {
            instances.push(InstSpec::from_json(i)?);
        }
        Ok(RunSpec {
            instances,
            sched_seed: j.get("sched_seed").and_then(|x| x.as_u64()).unwrap_or(0),
            phased: j.get("phased").and_then(|x| x.as_bool()).unwrap_or(false),
            solo_baselines: j.get("solo_baselines").and_then(|x| x.as_bool()).unwrap_or(true),
        })
    }
}
