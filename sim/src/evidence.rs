//! Evidence and replay files.

use crate::json::J;
use crate::run::{budgets_to_json, Budget, RunResult};
use crate::spec::RunSpec;
use crate::stats::{kind_table, map_table, mode_name, payload_table, Stats};

/// One explored case written out: the run tuple and the tail of its event log.
pub fn sample_json(spec: &RunSpec, budgets: &[Budget], res: &RunResult) -> J {
    let mut events = Vec::new();
    if let Some(ev) = res.events.as_ref() {
        for (i, e) in ev.iter().enumerate() {
            events.push(e.to_json(res.first_seq_kept + i as u64));
        }
    }
    J::obj(vec![
        ("run", spec.to_json()),
        ("budgets", budgets_to_json(budgets)),
        ("fingerprint", J::S(format!("{:016x}", res.fp))),
        (
            "outcome",
            J::A(res
                .insts
                .iter()
                .map(|s| {
                    J::obj(vec![
                        ("built", J::Bool(s.built)),
                        ("derivative_calls", J::U(s.calls)),
                        ("polls", J::U(s.polls)),
                        ("ok_items", J::U(s.ok_items)),
                        ("faults_fired", J::U(s.fired)),
                        ("ended_by", J::S(format!("{:?}", s.ended_by))),
                    ])
                })
                .collect()),
        ),
        ("last_events", J::A(events)),
    ])
}

pub struct EvidenceMeta<'a> {
    pub tier: &'a str,
    pub seed: u64,
    pub wall_s: f64,
    pub workers: usize,
    pub violations_reported: u64,
    pub known_findings_matched: u64,
    pub determinism: J,
    pub exhaustive_note: String,
    pub maxlen: usize,
    pub alphabet: J,
    pub swarm_runs: u64,
    pub f_groups: u64,
    /// (chains, builder calls, built) of the single-precision builder probe
    pub probe32: (u64, u64, u64),
}

pub fn evidence_json(st: &Stats, m: &EvidenceMeta) -> J {
    let evaluations = st.runs + st.chains + m.probe32.0;
    // distinct non-trivial cases: distinct fingerprints among executed runs in which a fault
    // actually fired or a builder call was actually rejected (a measured set), plus the
    // builder chains of the main exhaustive enumeration that were rejected or built (distinct by
    // construction: that enumeration visits each (instantiation, call sequence) once; the other
    // enumerations overlap with it and are left out of this number)
    let distinct = st.fingerprints.len() as u64 + st.bexh_distinct;
    let mut samples: Vec<J> = Vec::new();
    let mut sorted = st.samples.clone();
    sorted.sort_by(|a, b| a.0.cmp(&b.0));
    for (id, j) in sorted.into_iter().take(6) {
        samples.push(J::obj(vec![
            ("mode", J::s(mode_name(id.0))),
            ("group", J::U(id.1)),
            ("sub", J::U(id.2)),
            ("case", j),
        ]));
    }
    let runs_per_hour = if m.wall_s > 0.0 { (st.runs as f64 / m.wall_s * 3600.0) as u64 } else { 0 };
    let chains_per_hour = if m.wall_s > 0.0 { (st.chains as f64 / m.wall_s * 3600.0) as u64 } else { 0 };
    let probes_at_zero: Vec<J> = crate::PROBE_NAMES
        .iter()
        .filter(|p| st.probes.get(*p).copied().unwrap_or(0) == 0)
        .map(|p| J::s(p))
        .collect();
    let coverage = J::obj(vec![
        ("evaluations", J::U(evaluations)),
        ("distinct_nontrivial", J::U(distinct)),
        (
            "rule",
            J::s("evaluations = simulated runs executed through the replayable path (fault-grid reference and fault runs, swarm runs) + builder call chains enumerated by the fast path (double precision) + chains of the single-precision builder probe. A case is non-trivial if a planned derivative fault actually fired in it or a builder call was actually rejected / a complete configuration actually built. distinct_nontrivial = number of distinct 64-bit event-log fingerprints among the non-trivial executed runs (a measured set) + number of rejected-or-built chains of the main exhaustive enumeration (each (instantiation, call sequence) is visited exactly once by it, so they are distinct by construction; the chains of the deeper sub-alphabet enumerations, of the orders, subsets and insertions overlap with it and are not counted here)."),
        ),
        ("samples", J::A(samples)),
        ("exhaustive", J::Bool(false)),
        ("exhaustive_subspaces", J::S(m.exhaustive_note.clone())),
        ("simulated_runs", J::U(st.runs)),
        ("runs_by_mode", J::O(st.runs_by_mode.iter().map(|(k, v)| (mode_name(*k).to_string(), J::U(*v))).collect())),
        ("simulated_runs_per_hour", J::U(runs_per_hour)),
        ("builder_chains_per_hour", J::U(chains_per_hour)),
        ("seeds", J::A(vec![J::U(m.seed)])),
        ("workers", J::U(m.workers as u64)),
        ("simulated_time", J::s("not applicable: the code under test has no clock, timer or deadline; progress is measured in derivative calls and next() calls")),
        ("derivative_calls", J::U(st.deriv_calls)),
        ("next_calls", J::U(st.polls)),
        ("ok_items", J::U(st.ok_items)),
        ("instances_run", J::U(st.instances)),
        (
            "faults",
            J::obj(vec![
                ("runs_with_a_fault_plan", J::U(st.fault_runs)),
                ("runs_in_which_a_fault_fired", J::U(st.fired_runs)),
                ("derivative_errors_injected", J::U(st.faults_fired)),
                ("fired_by_plan_kind", map_table(&st.fired_by_plan)),
                ("fired_by_payload_type", payload_table(&st.fired_by_payload)),
                ("fired_by_solver", kind_table(&st.fired_by_kind)),
                ("planned_but_not_reached_by_solver", kind_table(&st.not_reached_by_kind)),
                ("fired_by_consumer_mode", map_table(&st.fired_by_drive)),
                ("distinct_instantiations_with_a_fired_fault", J::U(st.fired_instantiations.len() as u64)),
                ("instantiation_axes", J::s("7 solvers x {Const<1..4>, Dyn(1..17; swarm up to 39)} x {f64, Complex<f64>} x user data {(), Counter}")),
                ("surfaced_as_err_item", J::U(st.surfaced)),
                ("surfaced_error_was_not_the_first_fired", J::U(st.surfaced_not_first)),
                ("surfaced_error_not_in_the_items_source_chain_not_judged", J::U(st.not_in_source_chain)),
                ("max_derivative_calls_after_failing_call", J::U(st.calls_after_fire_max)),
                ("max_ok_items_after_failing_call", J::U(st.ok_after_fire_max)),
                ("distinct_fault_sites", J::U(st.sites.len() as u64)),
                (
                    "distinct_fault_sites_by_solver",
                    J::O(crate::spec::KINDS
                        .iter()
                        .map(|k| {
                            let n = st.sites.iter().filter(|s| (**s >> 48) as usize == k.idx()).count();
                            (k.name().to_string(), J::U(n as u64))
                        })
                        .collect()),
                ),
                ("fault_site_measure", J::s("distinct (solver, index of the next() call in the reference run capped at 24, position of the failing call inside that next(), result kind of that next(), log2 of the derivative calls made by that next(), offset inside that next() capped at 255)")),
            ]),
        ),
        (
            "reference_runs",
            J::obj(vec![
                ("count", J::U(st.ref_runs)),
                ("ended", map_table(&st.ref_ended)),
                ("groups_with_every_k", J::U(st.ref_exhaustive_groups)),
                ("groups_with_placed_sample_of_k", J::U(st.ref_sampled_groups)),
                ("max_calls", J::U(st.ref_calls_max)),
                ("fault_grid_groups", J::U(m.f_groups)),
            ]),
        ),
        ("reach_probes", J::O(crate::PROBE_NAMES.iter().map(|p| (p.to_string(), J::U(st.probes.get(p).copied().unwrap_or(0)))).collect())),
        ("reach_probes_at_zero", J::A(probes_at_zero)),
        (
            "polls_after_the_end",
            J::obj(vec![
                ("after_err_returned_none", J::U(st.extra_polls_after_err)),
                ("after_any_end_returned_none", J::U(st.extra_none)),
                ("after_normal_completion_returned_some", J::U(st.extra_some_after_done)),
                ("after_the_solvers_own_error_returned_some_not_judged", J::U(st.after_own_err)),
                ("solver_own_errors_handed_out_while_a_fired_fault_was_pending_not_judged", J::U(st.own_err_after_fault)),
                ("note", J::s("polls after the Err item of a failing derivative call are judged (must be None); polls after normal completion or after an error of the solver itself with no fault involved are only recorded, C06 does not speak about them")),
            ]),
        ),
        (
            "builder_half",
            J::obj(vec![
                ("chains_enumerated", J::U(st.chains)),
                ("chains_by_solver", kind_table(&st.chains_by_kind)),
                ("builder_calls", J::U(st.builder_calls)),
                ("chains_ended_by_a_rejected_call", J::U(st.chains_rejected)),
                ("chains_where_solve_reported_missing_parameters", J::U(st.chains_missing)),
                ("chains_that_built", J::U(st.chains_built)),
                ("rejections_by_error", map_table(&st.rejected_by_class)),
                ("max_chain_length", J::U(m.maxlen as u64)),
                ("alphabet", m.alphabet.clone()),
                ("builder_level_hook_reads", J::U(st.hook_reads)),
                ("hook_reads_with_both_bounds_set", J::U(st.hook_both_set)),
                ("hook_reads_where_a_clamping_branch_ran", J::U(st.hook_clamped)),
                ("solver_level_bound_reads_B7", J::U(st.solver_bound_reads)),
                ("builder_fields_seen_inverted_after_some_call", J::U(st.builder_inverted)),
                ("solver_bounds_inverted_with_the_builders_in_order_not_judged", J::U(st.solver_inverted_only)),
                ("chains_completed_with_canonical_values_and_built", J::U(st.chains_completed)),
                (
                    "single_precision_probe",
                    J::obj(vec![
                        ("instantiations", J::s("7 builders x {Const<1>, Dyn(2)} x {f32, Complex<f32>}")),
                        ("chains", J::U(m.probe32.0)),
                        ("builder_calls", J::U(m.probe32.1)),
                        ("built", J::U(m.probe32.2)),
                        ("note", J::s("builder contract only (chains of a few setters over a 22-symbol alphabet, completed with canonical values); no iteration, no fault half in single precision")),
                    ]),
                ),
                ("euler_nonpositive_tolerance_accepted", J::U(st.euler_tol_nonpositive_ok)),
            ]),
        ),
        (
            "multi_instance",
            J::obj(vec![
                ("runs_with_several_instances", J::U(st.multi_runs)),
                ("runs_with_nested_polls", J::U(st.nested_polls_runs)),
                ("isolation_comparisons", J::U(st.isolation_checks)),
                ("swarm_runs_planned", J::U(m.swarm_runs)),
                ("swarm_runs_executed_with_their_reference_and_solo_runs", J::U(st.runs_by_mode.get(&crate::stats::MODE_SWARM).copied().unwrap_or(0))),
                ("interleaving_measure", J::s("instances share no state, so all poll interleavings of a run are equivalent by construction; the number of distinct event-log fingerprints above is the only distinct-history measure reported")),
            ]),
        ),
        ("determinism_self_check", m.determinism.clone()),
        (
            "components",
            J::obj(vec![
                ("real", J::s("the seven IVP builders, IVPIterator, EulerSolver, RungeKuttaSolver, AdamsSolver, BDFSolver, Dimension, IVPError/IVPStatus conversions (from the working tree of the repository under test - /repo unless VERIF_REPO says otherwise - rebuilt by this check), nalgebra, num-complex")),
                ("stub", J::s("the user's derivative function (right-hand side from a family of ten, two of which drive the solvers into non-finite states + fault plan + call counter), the consumer of the iterator (poll plan), the caller of the builder (operation list)")),
            ]),
        ),
        ("known_findings_matched", J::U(m.known_findings_matched)),
    ]);
    J::obj(vec![
        ("property_id", J::s("C06")),
        ("tier", J::s(m.tier)),
        ("seed", J::U(m.seed)),
        ("level", J::s("fault_enumeration")),
        ("coverage", coverage),
        (
            "assumptions",
            J::A(vec![
                J::s("sampled parts (placed k for long reference runs, swarm runs) are evidence, not proof"),
                J::s("instantiated for f64 and Complex<f64>, dimensions Const<1..4> and Dyn(1..17; swarm up to 39) (builder enumerations: Const<1..3>, Dyn(2)), user data () and a counter the derivative mutates, the seven shipped solver types; in single precision (f32, Complex<f32>) only the builders are exercised (builder_half.single_precision_probe), no iteration; user-defined coefficient types are not instantiated"),
                J::s("non-finite arguments, wrong-length initial-condition slices and new_dyn(0) on a dynamic dimension are outside the statement and not generated (new_dyn(k) on a static dimension, k = 0 included, is generated: it is dimension misuse)"),
                J::s("Euler::with_tolerance(non-positive) may return Ok or Err(ToleranceOOB) (documented no-op; DESIGN 3.7); Euler::solve() with the step given only through with_minimum_dt may return Ok or Err(MissingParameters)"),
                J::s("clause B7 (min <= max) is observed through the two cfg(bacon_verif) accessors; a violation needs both the builder at solve() and the built solver to show minimum > maximum (DESIGN 3.5.2)"),
                J::s("interpretations: the Err item must hold the very error object the derivative returned first; a bad value is rejected by the setter that receives it; all seven parameters are mandatory; an Err of the solver itself with no fault fired does not arm the 'nothing more' rule; a completed iterator polled again must not panic (DESIGN 3.5, 8.6)"),
                J::s("only the build of /repo with --cfg bacon_verif is observed (the guard adds accessors, nothing else)"),
                J::s("rustc, cargo, nalgebra and the simulator itself are trusted"),
            ]),
        ),
        ("wall_s", J::F(m.wall_s)),
        ("violations", J::U(m.violations_reported)),
    ])
}
