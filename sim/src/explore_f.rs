//! Fault grid (the F half of C06): for every configuration of a fixed grid, one fault-free
//! reference run, then derivative failures at call k for every k of the reference run (or a
//! placed sample when the reference run is long), as a transient and as a permanent fault,
//! through several ways of consuming the iterator.

use crate::prng::{mix, SplitMix64};
use crate::run::{execute, Budget, EndedBy, ExecOpts, InstSummary};
use crate::spec::*;
use crate::stats::{FoundViolation, Stats, MODE_FGRID};

#[derive(Clone, Copy, Debug)]
pub struct FTier {
    pub thorough: bool,
    /// reference runs with at most this many derivative calls get every k
    pub exhaustive_cap: u64,
    /// call budget of a reference run
    pub ref_budget: u64,
    /// number of sampled k for long reference runs
    pub sample_k: u64,
    /// every (dimension mode, field) for every (solver, problem, parameters)
    pub full_cross: bool,
}

impl FTier {
    pub fn quick() -> FTier {
        FTier { thorough: false, exhaustive_cap: 700, ref_budget: 5_000, sample_k: 40, full_cross: true }
    }
    pub fn thorough() -> FTier {
        FTier { thorough: true, exhaustive_cap: 4_000, ref_budget: 40_000, sample_k: 256, full_cross: true }
    }
}

/// (start, end, min, max, tol)
type Params = (f64, f64, f64, f64, f64);

fn param_grid(thorough: bool) -> Vec<Params> {
    let mut v: Vec<Params> = vec![
        (0.0, 1.0, 1e-4, 0.1, 1e-4),
        (-1.0, -0.4, 1e-6, 0.05, 1e-6),
        (2.0, 2.6, 0.05, 0.05, 1e-3),
        (0.0, 0.03, 1e-4, 0.1, 1e-3),
        (0.0, 4.0, 1e-3, 0.1, 1e-2),
        (0.0, 0.5, 1e-7, 0.1, 1e-7),
        // loose tolerances: on the pinned tree the BDF solvers get past their first implicit
        // step, and RK 3(2) accepts steps, only with tolerances like these
        (0.0, 1.0, 1e-3, 0.1, 0.1),
        (0.0, 2.0, 1e-3, 0.1, 1.0),
    ];
    // sweeps across the points where the multistep start-up (O-1 resp. O Runge-Kutta steps of
    // the first trial step length (min+max)/2) no longer fits before the end
    let dt0 = (0.1 + 1e-3) / 2.0;
    let ms: &[f64] = if thorough {
        &[0.5, 1.0, 1.5, 2.0, 2.5, 3.0, 3.5, 4.0, 4.5, 5.0, 5.5, 6.5, 7.0, 7.5, 8.5, 12.5]
    } else {
        &[1.0, 1.5, 2.5, 3.5, 4.5, 6.5, 7.5, 8.5]
    };
    for m in ms {
        v.push((0.0, m * dt0, 1e-3, 0.1, 1e-2));
    }
    if thorough {
        v.push((-3.0, 5.0, 1e-4, 0.25, 1e-3));
        v.push((10.0, 10.5, 1e-5, 0.01, 1e-5));
        v.push((0.0, 1.0, 0.1, 0.1, 1e-1));
    }
    v
}

fn base_ops(dim: DimMode, kind: Kind, p: Params, variant: u64) -> Vec<BOp> {
    let (start, end, min, max, tol) = p;
    let ctor = if dim.dynamic { BOp::NewDyn(dim.n) } else { BOp::New };
    let ic = if variant % 2 == 0 { BOp::IcSlice } else { BOp::IcVec };
    let mut ops = vec![ctor];
    if kind.is_euler() {
        // Euler has one step length; give it the maximum step only
        ops.extend([BOp::Max(max), BOp::Start(start), BOp::End(end), ic, BOp::Deriv]);
    } else if variant % 3 == 0 {
        ops.extend([BOp::Tol(tol), BOp::Max(max), BOp::Min(min), BOp::Start(start), BOp::End(end), ic, BOp::Deriv]);
    } else if variant % 3 == 1 {
        ops.extend([BOp::Deriv, BOp::End(end), BOp::Start(start), BOp::Min(min), BOp::Max(max), ic, BOp::Tol(tol)]);
    } else {
        ops.extend([ic, BOp::Min(min), BOp::Tol(tol), BOp::Start(start), BOp::Deriv, BOp::Max(max), BOp::End(end)]);
    }
    ops.push(BOp::Solve);
    ops
}

/// The fixed grid of fault-free base configurations.
pub fn groups(tier: &FTier) -> Vec<InstSpec> {
    let dims_all = [
        DimMode { dynamic: false, n: 1 },
        DimMode { dynamic: false, n: 2 },
        DimMode { dynamic: false, n: 3 },
        DimMode { dynamic: true, n: 2 },
        DimMode { dynamic: true, n: 1 },
        DimMode { dynamic: true, n: 3 },
        DimMode { dynamic: false, n: 4 },
        DimMode { dynamic: true, n: 5 },
        // larger systems (run-time dimensions cost no instantiation)
        DimMode { dynamic: true, n: 9 },
        DimMode { dynamic: true, n: 17 },
    ];
    let fields = [Field::Real, Field::Complex];
    let params = param_grid(tier.thorough);
    let mut out = Vec::new();
    let mut idx: u64 = 0;
    // wide step bounds and loose tolerances: trial stages of the explicit formulas overflow
    let wide: [Params; 4] = [
        (0.0, 3.0, 1e-6, 1.0, 1.0),
        (0.0, 4.0, 1e-12, 2.0, 1e6),
        (0.0, 2.0, 1e-5, 0.1, 1e-2),
        (0.0, 1.0, 1e-6, 0.2, 1e-3),
    ];
    for kind in KINDS {
        for problem in PROBLEMS {
            let plist: Vec<Params> = if problem.overflows() {
                [0usize, 4, 6, 7].iter().map(|i| params[*i]).chain(wide.iter().copied()).collect()
            } else if tier.thorough {
                params.iter().copied().chain(wide.iter().copied()).collect()
            } else {
                params.clone()
            };
            for (pi, p) in plist.iter().enumerate() {
                if tier.thorough || tier.full_cross {
                    // quick: four dimension modes everywhere, all eight for two of the parameter sets
                    // the two large run-time dimensions are expensive (BDF makes 2n calls per
                    // Jacobian): they go with a few parameter sets only, also in the thorough tier
                    let dims: &[DimMode] = if pi == 0 || (tier.thorough && (pi == 4 || pi == 6)) {
                        &dims_all
                    } else if tier.thorough || pi == 4 {
                        &dims_all[..8]
                    } else {
                        &dims_all[..4]
                    };
                    for &dim in dims {
                        for field in fields {
                            out.push(mk(kind, dim, field, problem, *p, idx));
                            idx += 1;
                        }
                    }
                } else {
                    // quick: rotate dimension mode and field through the grid so that every
                    // one of the 56 instantiations appears, without the full cross product
                    let r = (kind.idx() + problem.rank() * 3 + pi * 5) as u64;
                    for j in 0..2u64 {
                        let dim = dims_all[((r + 3 * j) % 4) as usize];
                        let field = fields[((r / 2 + j) % 2) as usize];
                        out.push(mk(kind, dim, field, problem, *p, idx));
                        idx += 1;
                    }
                }
            }
        }
    }
    out
}

fn mk(kind: Kind, dim: DimMode, field: Field, problem: Problem, p: Params, idx: u64) -> InstSpec {
    InstSpec {
        kind,
        dim,
        field,
        data: if idx % 3 == 1 { DataMode::Counter } else { DataMode::Unit },
        ops: base_ops(dim, kind, p, idx),
        problem,
        y0: if idx % 32 == 21 {
            1e200
        } else if idx % 32 == 5 {
            -2.0
        } else if idx % 4 == 3 {
            0.25
        } else {
            1.0
        },
        plan: FaultPlan::None,
        payload: Payload::Typed,
        drive: Drive::Poll,
        extra_polls: 8,
        nested_every: 0,
    }
}

pub fn order_of(kind: Kind) -> u64 {
    match kind {
        Kind::Euler => 1,
        Kind::Rk45 => 6,
        Kind::Rk23 => 4,
        Kind::Adams5 => 5,
        Kind::Adams3 => 3,
        Kind::Bdf6 => 7,
        Kind::Bdf2 => 3,
    }
}

/// Where in the reference run does call k fall? Returns (poll index 1-based, first call of that
/// poll, last call of that poll, kind of that poll's result). Calls after the last poll: None.
fn locate(r: &InstSummary, k: u64) -> Option<(usize, u64, u64, u8)> {
    let mut prev = 0u64;
    for (i, &c) in r.poll_calls.iter().enumerate() {
        let c = c as u64;
        if k > prev && k <= c {
            return Some((i + 1, prev + 1, c, r.poll_kinds[i]));
        }
        prev = c;
    }
    None
}

fn log2b(x: u64) -> u64 {
    64 - x.max(1).leading_zeros() as u64
}

/// Coverage bookkeeping for a fault placed at call k of a reference run.
fn account_site(st: &mut Stats, base: &InstSpec, r: &InstSummary, k: u64) {
    let kind = base.kind;
    let n = base.dim.n as u64;
    let o = order_of(kind);
    if k == 1 {
        st.probe("fault_on_first_call");
    }
    if k == r.calls {
        st.probe("fault_on_last_call_of_reference_run");
    }
    if let Some((_, y)) = r.call_args.get((k as usize).wrapping_sub(1)) {
        if *y == f64::INFINITY {
            st.probe("fault_on_call_with_non_finite_state");
        }
    }
    match locate(r, k) {
        Some((p, first, last, pk)) => {
            let in_poll = last - first + 1;
            let pos = if in_poll == 1 {
                3
            } else if k == first {
                0
            } else if k == last {
                1
            } else {
                2
            };
            let key = (kind.idx() as u64) << 48
                | (p.min(24) as u64) << 40
                | pos << 36
                | (pk as u64) << 32
                | log2b(in_poll) << 24
                | (k - first).min(255) << 8;
            st.sites.insert(key);
            let multistep = matches!(kind, Kind::Adams5 | Kind::Adams3 | Kind::Bdf6 | Kind::Bdf2);
            if multistep && p == 1 {
                st.probe("fault_in_multistep_startup");
            }
            if multistep && p > 1 && pk == 0 {
                st.probe("fault_in_multistep_later_poll");
            }
            let nominal = match kind {
                Kind::Euler => 1,
                Kind::Rk45 => 6,
                Kind::Rk23 => 4,
                _ => u64::MAX,
            };
            if in_poll > nominal {
                st.probe("fault_in_poll_that_redid_a_trial_step");
            }
            if pk == 2 {
                st.probe("fault_in_poll_that_ended_with_solver_error");
            }
            if pk == 1 {
                st.probe("fault_in_poll_that_returned_none");
            }
            // the poll that yields the last Ok item of the reference run
            let last_ok = r.poll_kinds.iter().rposition(|x| *x == 0).map(|i| i + 1);
            if Some(p) == last_ok {
                st.probe("fault_in_final_step");
            }
            if matches!(kind, Kind::Bdf6 | Kind::Bdf2) {
                let off = k - first + 1;
                let rk = 4 * o;
                if p == 1 && off > rk + 1 && off <= rk + 1 + 2 * n {
                    st.probe("fault_in_bdf_jacobian");
                } else if p == 1 && off > rk + 1 + 2 * n {
                    st.probe("fault_in_bdf_broyden_iteration");
                }
            }
        }
        None => {
            st.probe("fault_after_reference_run");
        }
    }
}

/// The call numbers to fail for one group.
fn choose_ks(tier: &FTier, r: &InstSummary, n: u64, truncated: bool, rng: &mut SplitMix64) -> (Vec<u64>, bool) {
    if n <= tier.exhaustive_cap && !truncated {
        return ((1..=n + 1).collect(), true);
    }
    let mut ks: Vec<u64> = Vec::new();
    let edge = if tier.thorough { 64 } else { 16 };
    ks.extend(1..=edge.min(n));
    ks.extend((n.saturating_sub(edge) + 1)..=(if truncated { n } else { n + 1 }));
    // first and last call of a seeded sample of polls
    let polls = r.poll_calls.len() as u64;
    if polls > 0 {
        for _ in 0..tier.sample_k / 2 {
            let p = rng.below(polls) as usize;
            let first = if p == 0 { 1 } else { r.poll_calls[p - 1] as u64 + 1 };
            let last = r.poll_calls[p] as u64;
            if last >= first {
                ks.push(first);
                ks.push(last);
            }
        }
    }
    for _ in 0..tier.sample_k {
        ks.push(rng.range(1, n));
    }
    ks.sort_unstable();
    ks.dedup();
    (ks, false)
}

fn next_down(x: f64) -> f64 {
    // the largest float below x (x finite)
    if x == 0.0 {
        return -f64::MIN_POSITIVE * f64::EPSILON;
    }
    let b = x.to_bits();
    f64::from_bits(if x > 0.0 { b - 1 } else { b + 1 })
}

/// A domain-failure plan placed from the recorded arguments of a reference run so that it
/// first fires at (or before) call k: "fails beyond this time", "fails when the state is this
/// large", "fails inside this time window". Also returns the call at which it must fire first.
pub fn domain_plan(rng: &mut SplitMix64, args: &[(f64, f64)], k: u64) -> Option<(FaultPlan, u64)> {
    if args.is_empty() {
        return None;
    }
    let k = (k.max(1) as usize).min(args.len());
    let (t, y) = args[k - 1];
    if !t.is_finite() {
        return None;
    }
    let plan = match rng.below(4) {
        0 | 1 => FaultPlan::TimeAbove(next_down(t).to_bits()),
        2 if y.is_finite() && y > 0.0 => FaultPlan::NormAbove(next_down(y).to_bits()),
        _ => {
            // a window around t_k about as wide as the distance to a neighbouring call
            let other = if k >= 2 { args[k - 2].0 } else if args.len() > k { args[k].0 } else { t + 1e-3 };
            let mut w = (other - t).abs() * if rng.chance(0.5) { 0.5 } else { 3.0 };
            if !(w > 0.0) || !w.is_finite() {
                w = 1e-6;
            }
            FaultPlan::TimeWindow((t - w).to_bits(), (t + w).to_bits())
        }
    };
    let first = args.iter().enumerate().find(|(i, (t, y))| plan.fails(*i as u64 + 1, *t, *y)).map(|(i, _)| i as u64 + 1)?;
    Some((plan, first))
}

pub struct GroupOutcome {
    pub harness_errors: Vec<String>,
}

/// Process one group: reference run, then the fault runs. Everything is a function of
/// (seed, group index, tier).
pub fn run_group(seed: u64, gi: u64, base: &InstSpec, tier: &FTier, st: &mut Stats) -> GroupOutcome {
    let mut out = GroupOutcome { harness_errors: Vec::new() };
    let mut rng = SplitMix64::new(mix(seed, 0x4600_0000_0000 + gi));
    let ref_budget = Budget { max_calls: tier.ref_budget, max_polls: tier.ref_budget };
    let ref_spec = RunSpec { instances: vec![base.clone()], sched_seed: 0, phased: false, solo_baselines: true };
    let opts_ref = ExecOpts { record: false, keep_tail: 0, rec_polls: true, check_isolation: false, rec_items: false };
    let rr = execute(&ref_spec, &[ref_budget], &opts_ref);
    st.account_run((MODE_FGRID, gi, 0), &ref_spec, &rr.insts, rr.fp);
    if let Some(v) = rr.violation {
        st.found(FoundViolation { id: (MODE_FGRID, gi, 0), spec: ref_spec, budgets: vec![ref_budget], violation: v });
        return out;
    }
    let r = &rr.insts[0];
    st.account_reference(r);
    if !r.built {
        out.harness_errors.push(format!("fault-grid group {}: the base configuration did not build", gi));
        return out;
    }
    if r.calls == 0 {
        return out;
    }
    // a reference run stopped by the call budget made one aborted call beyond it
    // (also when an Err of the solver itself came first and the later polls ran into the budget)
    let truncated = r.ended_by == EndedBy::Budget || r.calls > tier.ref_budget;
    // derivative calls made up to the poll at which the reference run first ended: what
    // happens after that depends on how long the consumer keeps polling
    let calls_to_first_end = r
        .poll_kinds
        .iter()
        .position(|k| *k != 0)
        .and_then(|i| r.poll_calls.get(i))
        .map(|c| *c as u64)
        .unwrap_or(r.calls);
    let n_ref = if truncated { r.calls.saturating_sub(1).min(tier.ref_budget) } else { r.calls };
    let (ks, exhaustive) = choose_ks(tier, r, n_ref, truncated, &mut rng);
    if exhaustive {
        st.ref_exhaustive_groups += 1;
    } else {
        st.ref_sampled_groups += 1;
    }
    // polls: an iterator may hand out points it computed ahead of the consumer before the Err
    // (each took at least one derivative call), so the reference calls are allowed on top
    let budget = Budget { max_calls: r.calls + 1000, max_polls: r.polls + r.calls + 64 };
    let opts = ExecOpts { record: false, keep_tail: 0, rec_polls: false, check_isolation: false, rec_items: false };
    let mut sub: u64 = 0;
    let mut sample_taken = false;
    let violations_before = st.violations.len();
    for &k in &ks {
        if st.violations.len() > violations_before {
            // one violating run per group is enough to report; later runs of a broken solver
            // only cost time (and a by-value finisher on a broken iterator may never return)
            return out;
        }
        account_site(st, base, r, k);
        for (pi, plan) in [FaultPlan::Transient(k), FaultPlan::Permanent(k)].into_iter().enumerate() {
            let mut drives: Vec<Drive> = vec![Drive::Poll, Drive::CollectVec];
            if (k + gi) % 3 == 0 {
                drives.push(Drive::ByRefCollect);
            }
            if (k + gi) % 5 == 0 {
                drives.push(Drive::TakeBursts(1 + ((k + gi) % 4) as u8));
            }
            if (k + gi) % 7 == 1 {
                drives.push(Drive::Nth0);
            }
            if (k + gi) % 7 == 4 {
                drives.push(Drive::Walk(((k / 7 + gi) % 5) as u8));
            }
            if (k + gi) % 9 == 2 {
                drives.push(Drive::WalkOwned(((k / 9 + gi) % 2) as u8));
            }
            if (k + gi) % 11 == 6 {
                drives.push(Drive::PollThenWalk(((k / 11 + gi) % 5) as u8));
            }
            if (k + gi) % 4 == 2 {
                drives.push(Drive::PollThenCollect);
            }
            if (k + gi) % 5 == 3 {
                // a few items by next(), the rest (with the failing call in it, or not) by collect_vec()
                drives.push(Drive::PollNThenCollect(1 + ((k / 5 + gi) % 7) as u8));
            }
            if (k + gi) % 4 == 1 {
                drives.push(Drive::NthSkip(1 + ((k / 4 + gi) % 4) as u8));
            }
            if (k + gi) % 6 == 3 {
                drives.push(Drive::PollThenCount);
            }
            if (k + gi) % 6 == 5 {
                drives.push(Drive::PollThenLast);
            }
            if (k + gi) % 13 == 3 {
                drives.push(Drive::Count);
            }
            if (k + gi) % 9 == 8 {
                drives.push(Drive::PollThenNth(1 + ((k + gi) % 3) as u8));
            }
            if (k + gi) % 13 == 7 {
                drives.push(Drive::Last);
            }
            let mut payloads: Vec<Payload> = if k <= 3 {
                PAYLOADS.to_vec()
            } else {
                vec![PAYLOADS[((k + pi as u64 + gi) % PAYLOADS.len() as u64) as usize]]
            };
            if pi == 1 {
                // several calls fail: only payloads that say which call they come from can show
                // that a later error was surfaced instead of the first
                for p in payloads.iter_mut() {
                    if !p.has_tag() {
                        *p = Payload::Typed;
                    }
                }
                payloads.dedup();
            }
            for drive in &drives {
                for payload in &payloads {
                    sub += 1;
                    let extra = if *drive == Drive::Poll { 8 } else { 1 + ((k + sub) % 8) as u8 };
                    let inst = InstSpec {
                        plan: plan.clone(),
                        payload: *payload,
                        drive: *drive,
                        extra_polls: extra,
                        ..base.clone()
                    };
                    let spec = RunSpec { instances: vec![inst], sched_seed: 0, phased: false, solo_baselines: true };
                    let res = execute(&spec, &[budget], &opts);
                    st.account_run((MODE_FGRID, gi, sub), &spec, &res.insts, res.fp);
                    let s = &res.insts[0];
                    // self-check of the simulator: the faulty run is the reference run up to
                    // call k, so the fault fires iff k is a call of the reference run
                    if *drive == Drive::Poll && res.violation.is_none() && !truncated {
                        let should = k <= r.calls;
                        if (s.fired > 0) != should {
                            out.harness_errors.push(format!(
                                "fault-grid group {} k={}: fault fired={} but reference run has {} calls (simulator not deterministic?)",
                                gi, k, s.fired > 0, r.calls
                            ));
                        }
                    }
                    if let Some(v) = res.violation {
                        st.found(FoundViolation { id: (MODE_FGRID, gi, sub), spec, budgets: vec![budget], violation: v });
                        return out;
                    } else if !sample_taken && s.fired > 0 && gi % 97 == 5 && k > 2 {
                        sample_taken = true;
                        let rec = execute(&spec, &[budget], &ExecOpts { record: true, keep_tail: 12, rec_polls: false, check_isolation: false, rec_items: false });
                        st.samples.push(((MODE_FGRID, gi, sub), crate::evidence::sample_json(&spec, &[budget], &rec)));
                    }
                }
            }
        }
    }
    // the most common domain failure of all: the derivative refuses a non-finite state
    if !truncated && r.call_args.iter().any(|(_, y)| *y == f64::INFINITY) {
        let plan = FaultPlan::NormAbove(f64::MAX.to_bits());
        let first = r.call_args.iter().position(|(_, y)| *y == f64::INFINITY).map(|i| i as u64 + 1);
        for (di, drive) in [Drive::Poll, Drive::CollectVec, Drive::PollThenCollect].into_iter().enumerate() {
            sub += 1;
            st.probe("non_finite_state_domain_plans");
            let inst = InstSpec {
                plan: plan.clone(),
                payload: PAYLOADS[((gi + di as u64) % PAYLOADS.len() as u64) as usize],
                drive,
                extra_polls: 4,
                ..base.clone()
            };
            let spec = RunSpec { instances: vec![inst], sched_seed: 0, phased: false, solo_baselines: true };
            let res = execute(&spec, &[budget], &opts);
            st.account_run((MODE_FGRID, gi, sub), &spec, &res.insts, res.fp);
            if drive == Drive::Poll && res.violation.is_none() && first.map(|f| f <= calls_to_first_end).unwrap_or(false) && res.insts[0].first_fired_call != first {
                out.harness_errors.push(format!(
                    "fault-grid group {} non-finite plan: first fired at {:?}, the reference run says {:?} (simulator not deterministic?)",
                    gi, res.insts[0].first_fired_call, first
                ));
            }
            if let Some(v) = res.violation {
                st.found(FoundViolation { id: (MODE_FGRID, gi, sub), spec, budgets: vec![budget], violation: v });
                return out;
            }
        }
    }
    // a few multi-failure plans per group
    let n = n_ref.max(1);
    let extra_plans = if tier.thorough { 24 } else { 8 };
    for j in 0..extra_plans {
        let k = rng.range(1, n);
        let mut expect_first: Option<u64> = None;
        let plan = if j % 4 >= 2 && !truncated {
            // domain failures: the call fails because of its arguments, not its number
            match domain_plan(&mut rng, &r.call_args, k) {
                Some((p, first)) => {
                    expect_first = Some(first);
                    st.probe("domain_fault_plans_placed");
                    p
                }
                None => continue,
            }
        } else if j % 2 == 0 {
            FaultPlan::Burst(k, rng.range(2, 5))
        } else {
            let mut ks2 = vec![k];
            for _ in 0..rng.range(1, 3) {
                ks2.push(rng.range(1, n + 2));
            }
            ks2.sort_unstable();
            ks2.dedup();
            FaultPlan::Scattered(ks2)
        };
        sub += 1;
        let drive = *rng.pick(&[Drive::Poll, Drive::CollectVec, Drive::ByRefCollect, Drive::TakeBursts(2), Drive::Nth0, Drive::Walk(0), Drive::Walk(1), Drive::Walk(2), Drive::Walk(3), Drive::Walk(4), Drive::WalkOwned(0), Drive::WalkOwned(1), Drive::PollThenWalk(1), Drive::PollThenCollect, Drive::PollNThenCollect(2), Drive::NthSkip(2)]);
        let inst = InstSpec {
            plan,
            payload: {
                let p = *rng.pick(&PAYLOADS);
                if p.has_tag() { p } else { Payload::Nested }
            },
            drive,
            extra_polls: rng.range(1, 8) as u8,
            ..base.clone()
        };
        let spec = RunSpec { instances: vec![inst], sched_seed: 0, phased: false, solo_baselines: true };
        let res = execute(&spec, &[budget], &opts);
        st.account_run((MODE_FGRID, gi, sub), &spec, &res.insts, res.fp);
        // self-check of the simulator: the run is the reference run up to the first call whose
        // arguments are outside the domain, so that is where the plan must fire first
        if let (Some(first), None, true) = (expect_first, &res.violation, drive == Drive::Poll && expect_first.map(|f| f <= calls_to_first_end).unwrap_or(false)) {
            if res.insts[0].first_fired_call != Some(first) {
                out.harness_errors.push(format!(
                    "fault-grid group {} domain plan: first fired at {:?}, the reference run says call {} (simulator not deterministic?)",
                    gi, res.insts[0].first_fired_call, first
                ));
            }
        }
        if let Some(v) = res.violation {
            st.found(FoundViolation { id: (MODE_FGRID, gi, sub), spec, budgets: vec![budget], violation: v });
        }
    }
    out
}
