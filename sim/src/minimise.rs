//! Delta-debugging of a failing run: shrink the replay structure while the same violation class
//! persists. Candidates are re-executed in-process; `execute` is a pure function of the candidate.

use crate::run::{execute, Budget, ExecOpts, Violation};
use crate::spec::*;

/// Budgets of a candidate come from its own fault-free reference run, by the same rule as in the
/// explorers (reference calls + 1000, reference polls + reference calls + 64); the reference run here may use up
/// to 60 000 calls, whereas the quick explorers stop theirs at 5 000 (a candidate's budgets
/// travel in the replay file, so the replay is judged exactly as the minimiser judged it).
pub fn budgets_for(spec: &RunSpec) -> Vec<Budget> {
    spec.instances
        .iter()
        .map(|i| {
            let solo = RunSpec {
                instances: vec![InstSpec {
                    plan: FaultPlan::None,
                    drive: Drive::Poll,
                    extra_polls: 8,
                    nested_every: 0,
                    ..i.clone()
                }],
                sched_seed: 0,
                phased: false,
                solo_baselines: true,
            };
            let r = execute(
                &solo,
                &[Budget::REFERENCE],
                &ExecOpts { record: false, keep_tail: 0, rec_polls: false, check_isolation: false, rec_items: false },
            );
            let s = &r.insts[0];
            Budget { max_calls: s.calls + 1000, max_polls: s.polls + s.calls + 64 }
        })
        .collect()
}

fn fails(spec: &RunSpec, class: &str) -> Option<(Vec<Budget>, Violation)> {
    let b = budgets_for(spec);
    let r = execute(spec, &b, &ExecOpts::default());
    match r.violation {
        Some(v) if v.class == class => Some((b, v)),
        _ => None,
    }
}

pub struct Minimised {
    pub spec: RunSpec,
    pub budgets: Vec<Budget>,
    pub violation: Violation,
    pub steps_tried: u64,
    pub steps_accepted: u64,
}

pub fn minimise(orig: &RunSpec, orig_budgets: &[Budget], v0: &Violation) -> Minimised {
    let class = v0.class;
    let mut tried = 0u64;
    let mut accepted = 0u64;
    // start from the original with recomputed budgets if that still fails, else keep as is
    let (mut cur, mut cur_b, mut cur_v) = match fails(orig, class) {
        Some((b, v)) => (orig.clone(), b, v),
        None => {
            return Minimised {
                spec: orig.clone(),
                budgets: orig_budgets.to_vec(),
                violation: v0.clone(),
                steps_tried: 1,
                steps_accepted: 0,
            }
        }
    };

    macro_rules! attempt {
        ($cand:expr) => {{
            let cand: RunSpec = $cand;
            if cand != cur {
                tried += 1;
                if let Some((b, v)) = fails(&cand, class) {
                    cur = cand;
                    cur_b = b;
                    cur_v = v;
                    accepted += 1;
                    true
                } else {
                    false
                }
            } else {
                false
            }
        }};
    }

    let mut progress = true;
    let mut rounds = 0;
    while progress && rounds < 8 && tried < 4000 {
        progress = false;
        rounds += 1;

        // drop instances
        let mut i = 0;
        while cur.instances.len() > 1 && i < cur.instances.len() {
            let mut c = cur.clone();
            c.instances.remove(i);
            // nested links point at the next instance; clear the one before the removed slot
            if i > 0 {
                c.instances[i - 1].nested_every = 0;
            }
            if attempt!(c) {
                progress = true;
            } else {
                i += 1;
            }
        }
        // schedule and nesting
        {
            let mut c = cur.clone();
            c.sched_seed = 0;
            progress |= attempt!(c);
        }
        if cur.phased {
            let mut c = cur.clone();
            c.phased = false;
            progress |= attempt!(c);
        }
        for i in 0..cur.instances.len() {
            let mut c = cur.clone();
            c.instances[i].nested_every = 0;
            progress |= attempt!(c);
        }
        for i in 0..cur.instances.len() {
            // consumer
            {
                let mut c = cur.clone();
                c.instances[i].drive = Drive::Poll;
                progress |= attempt!(c);
            }
            for e in [0u8, 1, 2] {
                if e < cur.instances[i].extra_polls {
                    let mut c = cur.clone();
                    c.instances[i].extra_polls = e;
                    if attempt!(c) {
                        progress = true;
                        break;
                    }
                }
            }
            // payload
            {
                let mut c = cur.clone();
                c.instances[i].payload = Payload::Typed;
                progress |= attempt!(c);
            }
            // a domain failure: try the call-number plans that fail at the same first call
            if cur.instances[i].plan.is_domain() {
                let r = execute(&cur, &cur_b, &ExecOpts::default());
                if let Some(k) = r.insts.get(i).and_then(|s| s.first_fired_call) {
                    for p in [FaultPlan::Transient(k), FaultPlan::Permanent(k)] {
                        let mut c = cur.clone();
                        c.instances[i].plan = p;
                        if attempt!(c) {
                            progress = true;
                            break;
                        }
                    }
                }
            }
            // fault plan: to a single failure, then to the smallest call number
            if let Some(k) = cur.instances[i].plan.first() {
                for p in [FaultPlan::None, FaultPlan::Transient(k), FaultPlan::Permanent(k)] {
                    let simpler = match (&cur.instances[i].plan, &p) {
                        (FaultPlan::None, _) => false,
                        (_, FaultPlan::None) => true,
                        (FaultPlan::Transient(_), _) => false,
                        (FaultPlan::Permanent(_), FaultPlan::Transient(_)) => true,
                        (FaultPlan::Permanent(_), _) => false,
                        _ => true,
                    };
                    if simpler {
                        let mut c = cur.clone();
                        c.instances[i].plan = p;
                        if attempt!(c) {
                            progress = true;
                            break;
                        }
                    }
                }
            }
            // workload
            for p in PROBLEMS {
                if p.rank() < cur.instances[i].problem.rank() {
                    let mut c = cur.clone();
                    c.instances[i].problem = p;
                    if attempt!(c) {
                        progress = true;
                        break;
                    }
                }
            }
            {
                let mut c = cur.clone();
                c.instances[i].y0 = 1.0;
                progress |= attempt!(c);
            }
            // instantiation
            {
                let mut c = cur.clone();
                c.instances[i].field = Field::Real;
                progress |= attempt!(c);
            }
            {
                let mut c = cur.clone();
                c.instances[i].data = DataMode::Unit;
                progress |= attempt!(c);
            }
            if cur.instances[i].dim.n > 1 {
                let mut c = cur.clone();
                c.instances[i].dim.n = 1;
                for op in c.instances[i].ops.iter_mut() {
                    if let BOp::NewDyn(_) = op {
                        *op = BOp::NewDyn(1);
                    }
                }
                progress |= attempt!(c);
            }
            // static dimensions are instantiated for 1..=4 only
            if cur.instances[i].dim.dynamic && cur.instances[i].dim.n <= 4 {
                let mut c = cur.clone();
                let n = c.instances[i].dim.n;
                c.instances[i].dim = DimMode { dynamic: false, n };
                for op in c.instances[i].ops.iter_mut() {
                    if let BOp::NewDyn(_) = op {
                        *op = BOp::New;
                    }
                }
                progress |= attempt!(c);
            }
            // builder chain: drop calls
            let mut j = 1;
            while j < cur.instances[i].ops.len() {
                let mut c = cur.clone();
                c.instances[i].ops.remove(j);
                if attempt!(c) {
                    progress = true;
                } else {
                    j += 1;
                }
            }
            // builder chain: canonical values
            for j in 0..cur.instances[i].ops.len() {
                let canon = match cur.instances[i].ops[j] {
                    BOp::Tol(v) if v > 0.0 => Some(BOp::Tol(1e-3)),
                    BOp::Max(v) if v > 0.0 => Some(BOp::Max(0.1)),
                    BOp::Min(v) if v > 0.0 => Some(BOp::Min(1e-3)),
                    BOp::Start(_) => Some(BOp::Start(0.0)),
                    BOp::End(_) => Some(BOp::End(1.0)),
                    BOp::IcVec => Some(BOp::IcSlice),
                    _ => None,
                };
                if let Some(op) = canon {
                    let mut c = cur.clone();
                    c.instances[i].ops[j] = op;
                    progress |= attempt!(c);
                }
            }
            // shorter interval: fewer events to read in the replay
            {
                let cfg = cur.instances[i].config();
                if let (Some(st), Some(en)) = (cfg.start, cfg.end) {
                    for len in [0.05, 0.2, 0.5] {
                        if en - st > len {
                            let mut c = cur.clone();
                            for op in c.instances[i].ops.iter_mut() {
                                if let BOp::End(_) = op {
                                    *op = BOp::End(st + len);
                                }
                            }
                            if attempt!(c) {
                                progress = true;
                                break;
                            }
                        }
                    }
                }
            }
            // smallest failing call number (after the workload has been simplified)
            if let Some(k) = cur.instances[i].plan.first() {
                let mk = |plan: &FaultPlan, k2: u64| match plan {
                    FaultPlan::Transient(_) => FaultPlan::Transient(k2),
                    FaultPlan::Permanent(_) => FaultPlan::Permanent(k2),
                    FaultPlan::Burst(_, n) => FaultPlan::Burst(k2, *n),
                    other => other.clone(),
                };
                let mut cands: Vec<u64> = (1..k.min(33)).collect();
                let mut h = k / 2;
                while h > 32 {
                    cands.push(h);
                    h /= 2;
                }
                cands.sort_unstable();
                for k2 in cands {
                    if k2 < k {
                        let mut c = cur.clone();
                        c.instances[i].plan = mk(&cur.instances[i].plan, k2);
                        if attempt!(c) {
                            progress = true;
                            break;
                        }
                    }
                }
            }
        }
    }
    Minimised { spec: cur, budgets: cur_b, violation: cur_v, steps_tried: tried, steps_accepted: accepted }
}

/// Minimisation for violations that depend on state surviving between solver instances in one
/// process (found by the hermeticity gate): candidates cannot be judged in this process, whose
/// state is already disturbed, so each candidate is written out and replayed in a fresh process.
/// Only the list of instances is reduced (ddmin); budgets stay fixed.
pub fn minimise_fresh(
    exe: &std::path::Path,
    scratch_dir: &str,
    orig: &RunSpec,
    budget: Budget,
    v0: &Violation,
) -> Minimised {
    let class = v0.class;
    let tried = std::cell::Cell::new(0u64);
    let mut accepted = 0u64;
    let _ = std::fs::create_dir_all(scratch_dir);
    let tmp = format!("{}/.candidate-{}.json", scratch_dir.trim_end_matches('/'), std::process::id());
    let eval = |c: &RunSpec| -> Option<Violation> {
        tried.set(tried.get() + 1);
        let n = c.instances.len();
        let j = crate::json::J::obj(vec![
            ("property", crate::json::J::s("C06")),
            ("class", crate::json::J::s(class)),
            ("spec", c.to_json()),
            ("budgets", crate::run::budgets_to_json(&vec![budget; n])),
        ]);
        if std::fs::write(&tmp, j.to_string_compact()).is_err() {
            return None;
        }
        let out = std::process::Command::new(exe).arg("replay").arg(&tmp).arg("--terse").output().ok()?;
        if out.status.code() != Some(1) {
            return None;
        }
        let text = String::from_utf8_lossy(&out.stdout);
        let line = text.lines().find(|l| l.starts_with("REPRODUCED "))?;
        // REPRODUCED class=<c> instance=<i>: <detail>
        let inst = line
            .split("instance=")
            .nth(1)
            .and_then(|r| r.split(':').next())
            .and_then(|x| x.trim().parse::<u32>().ok())
            .unwrap_or(0);
        let detail = line.splitn(2, ": ").nth(1).unwrap_or("").to_string();
        Some(Violation { class, inst, detail })
    };
    let mut cur = orig.clone();
    let mut cur_v = match eval(&cur) {
        Some(v) => v,
        None => {
            let _ = std::fs::remove_file(&tmp);
            let n = orig.instances.len();
            return Minimised { spec: orig.clone(), budgets: vec![budget; n], violation: v0.clone(), steps_tried: tried.get(), steps_accepted: 0 };
        }
    };
    // ddmin over the instance list
    let mut chunk = (cur.instances.len() / 2).max(1);
    loop {
        let mut removed_any = false;
        let mut i = 0;
        while i < cur.instances.len() && cur.instances.len() > 1 && tried.get() < 1500 {
            let hi = (i + chunk).min(cur.instances.len());
            let mut c = cur.clone();
            c.instances.drain(i..hi);
            if c.instances.is_empty() {
                i = hi;
                continue;
            }
            match eval(&c) {
                Some(v) => {
                    cur = c;
                    cur_v = v;
                    accepted += 1;
                    removed_any = true;
                }
                None => i = hi,
            }
        }
        if tried.get() >= 1500 {
            break;
        }
        if chunk == 1 {
            if !removed_any {
                break;
            }
        } else {
            chunk = (chunk / 2).max(1);
        }
    }
    let _ = std::fs::remove_file(&tmp);
    let n = cur.instances.len();
    Minimised { spec: cur, budgets: vec![budget; n], violation: cur_v, steps_tried: tried.get(), steps_accepted: accepted }
}
