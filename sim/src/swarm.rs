//! Swarm mode: seeded random runs, everything varied per run — number of instances, solver,
//! dimension, field, builder chain (valid in random order with overwrites, or arbitrary), values
//! inside each class, workload, fault plan kind and placement, payload type, the way the
//! iterator is consumed, polls after the end, which instance the consumer polls next, and
//! derivatives that advance a neighbouring solver from inside their own step.

use crate::prng::{mix, SplitMix64};
use crate::run::{execute, Budget, ExecOpts};
use crate::spec::*;
use crate::stats::{FoundViolation, Stats, MODE_SWARM};

fn gen_values(rng: &mut SplitMix64) -> (f64, f64, f64, f64, f64) {
    let max = rng.log_uniform(0.01, 0.5);
    let min = match rng.below(5) {
        0 => max * rng.log_uniform(1e-6, 1e-3),
        1 => max * (0.1 + 0.8 * rng.unit()),
        2 => max,
        3 => max * 1.5, // above the maximum: one of the two clamping branches will run
        _ => max * rng.log_uniform(1e-4, 1e-1),
    };
    let tol = rng.log_uniform(1e-7, 1e-2);
    let start = match rng.below(20) {
        0..=4 => 0.0,
        5..=9 => -rng.unit() * 3.0,
        10..=14 => rng.unit() * 3.0,
        // far from zero: the time axis has a coarse resolution there
        15 => (rng.unit() - 0.5) * 2e6,
        _ => -0.0,
    };
    let steps = match rng.below(5) {
        0 => 0.3 + rng.unit() * 0.7,
        1 => 1.0 + rng.unit() * 8.0, // around the multistep start-up boundaries
        2 => 8.0 + rng.unit() * 32.0,
        3 => (1 + rng.below(9)) as f64 * 0.5,
        _ => 2.0 + rng.unit() * 4.0,
    };
    let end = start + steps * max;
    (start, end, min, max, tol)
}

fn next_up(x: f64) -> f64 {
    f64::from_bits(x.to_bits() + 1)
}

/// Valid values at the edges of their class: magnitudes far from 1, neighbours in the float
/// grid, times far from zero. Used for builder chains that are not iterated.
fn edge_positive(rng: &mut SplitMix64) -> f64 {
    match rng.below(8) {
        0 => f64::MIN_POSITIVE,
        1 => 5e-324,
        2 => rng.log_uniform(1e-300, 1e-17),
        3 => rng.log_uniform(1e6, 1e300),
        4 => 1.0,
        5 => next_up(1.0),
        6 => f64::EPSILON * rng.log_uniform(0.1, 10.0),
        _ => rng.log_uniform(1e-12, 1e3),
    }
}

fn bad_value(rng: &mut SplitMix64) -> f64 {
    match rng.below(4) {
        0 => 0.0,
        1 => -0.0,
        2 => -rng.log_uniform(1e-12, 1e3),
        _ => -f64::MIN_POSITIVE,
    }
}

fn gen_instance(rng: &mut SplitMix64) -> InstSpec {
    let kind = *rng.pick(&KINDS);
    let dynamic = rng.chance(0.4);
    // run-time dimensions go up to 6; static ones are instantiated for 1..=4
    let dim = DimMode {
        dynamic,
        n: if dynamic && rng.chance(0.06) {
            // run-time dimensions cost no instantiation: a few larger systems
            rng.range(7, 40) as u8
        } else if dynamic && rng.chance(0.3) {
            rng.range(4, 6) as u8
        } else {
            rng.range(1, 4) as u8
        },
    };
    let field = if rng.chance(0.5) { Field::Real } else { Field::Complex };
    let good_ctor = if dim.dynamic { BOp::NewDyn(dim.n) } else { BOp::New };
    let (start, end, min, max, tol) = gen_values(rng);
    let mut ops: Vec<BOp> = Vec::new();
    if rng.chance(0.75) {
        // complete valid configuration, random order, random overwrites
        ops.push(good_ctor);
        let mut setters = vec![
            BOp::Tol(tol),
            BOp::Max(max),
            BOp::Min(min),
            BOp::Start(start),
            BOp::End(end),
            if rng.chance(0.5) { BOp::IcSlice } else { BOp::IcVec },
            BOp::Deriv,
        ];
        if kind.is_euler() && rng.chance(0.6) {
            // Euler needs one step length only and no tolerance
            setters.retain(|o| !matches!(o, BOp::Tol(_) | BOp::Min(_)));
        }
        // earlier values that will be overwritten by the final ones
        for _ in 0..rng.below(4) {
            let (s2, e2, mi2, ma2, t2) = gen_values(rng);
            let extra = match rng.below(6) {
                0 => BOp::Tol(t2),
                1 => BOp::Max(ma2),
                2 => BOp::Min(mi2),
                3 => BOp::Deriv,
                4 => BOp::IcSlice,
                _ => {
                    // keep start/end overwrites consistent with the final interval
                    let _ = (s2, e2);
                    BOp::Tol(t2)
                }
            };
            ops.push(extra);
        }
        // Fisher-Yates
        for i in (1..setters.len()).rev() {
            let j = rng.below(i as u64 + 1) as usize;
            setters.swap(i, j);
        }
        ops.extend(setters);
        ops.push(BOp::Solve);
    } else {
        // arbitrary chain, usually rejected somewhere
        ops.push(if rng.chance(0.85) {
            good_ctor
        } else if dim.dynamic {
            BOp::New
        } else {
            BOp::NewDyn(dim.n)
        });
        let len = rng.range(1, 12);
        for _ in 0..len {
            let bad = rng.chance(0.2);
            let edge = rng.chance(0.3);
            let time = |rng: &mut SplitMix64| -> f64 {
                match rng.below(6) {
                    0 => -1000.0,
                    1 => next_up(-1000.0),
                    2 => 1e12,
                    3 => next_up(1.0),
                    _ => (rng.below(7) as f64 - 3.0) * 0.5,
                }
            };
            let op = match rng.below(8) {
                0 => BOp::Tol(if bad { bad_value(rng) } else if edge { edge_positive(rng) } else { rng.log_uniform(1e-9, 1.0) }),
                1 => BOp::Max(if bad { bad_value(rng) } else if edge { edge_positive(rng) } else { rng.log_uniform(1e-6, 10.0) }),
                2 => BOp::Min(if bad { bad_value(rng) } else if edge { edge_positive(rng) } else { rng.log_uniform(1e-9, 10.0) }),
                3 => BOp::Start(time(rng)),
                4 => BOp::End(time(rng)),
                5 => BOp::IcSlice,
                6 => BOp::IcVec,
                _ => BOp::Deriv,
            };
            ops.push(op);
        }
        if rng.chance(0.7) {
            ops.push(BOp::Solve);
        }
    }
    InstSpec {
        kind,
        dim,
        field,
        data: if rng.chance(0.4) { DataMode::Counter } else { DataMode::Unit },
        ops,
        problem: *rng.pick(&PROBLEMS),
        // the initial state is a builder input too: ordinary, zero, negative, and magnitudes
        // whose square or norm overflows or underflows
        y0: *rng.pick(&[1.0, 1.0, 0.25, 2.0, 0.0, -3.0, 1e-200, 1.5e154, 1e200]),
        plan: FaultPlan::None,
        payload: *rng.pick(&PAYLOADS),
        drive: match rng.below(6) {
            0 | 1 => Drive::Poll,
            2 => Drive::CollectVec,
            3 => Drive::ByRefCollect,
            4 => match rng.below(10) {
                9 => Drive::PollThenNth(rng.range(1, 4) as u8),
                7 => Drive::PollThenCount,
                8 => Drive::PollThenLast,
                0 => Drive::Nth0,
                1 => match rng.below(10) {
                    0..=2 => Drive::PollThenWalk(rng.below(5) as u8),
                    3 | 4 => Drive::WalkOwned(rng.below(2) as u8),
                    _ => Drive::Walk(rng.below(5) as u8),
                },
                2 => if rng.chance(0.5) { Drive::PollThenCollect } else { Drive::PollNThenCollect(rng.range(1, 9) as u8) },
                3 => Drive::NthSkip(rng.range(1, 9) as u8),
                4 => Drive::Count,
                5 => Drive::Last,
                _ => Drive::TakeBursts(rng.range(1, 6) as u8),
            },
            _ => Drive::TakeBursts(rng.range(1, 6) as u8),
        },
        extra_polls: rng.range(1, 8) as u8,
        nested_every: 0,
    }
}

fn place_fault(rng: &mut SplitMix64, n: u64, poll_calls: &[u32]) -> u64 {
    if n == 0 {
        return 1;
    }
    match rng.below(10) {
        0..=2 => rng.range(1, n + 1),
        3 | 4 if !poll_calls.is_empty() => {
            let p = rng.below(poll_calls.len() as u64) as usize;
            if p == 0 { 1 } else { poll_calls[p - 1] as u64 + 1 }
        }
        5 | 6 if !poll_calls.is_empty() => {
            let p = rng.below(poll_calls.len() as u64) as usize;
            (poll_calls[p] as u64).max(1)
        }
        7 => rng.range(1, n.min(8)),
        8 => rng.range(n.saturating_sub(8).max(1), n + 1),
        _ => rng.range(1, n + 1),
    }
}

pub fn swarm_run(seed: u64, ri: u64, thorough: bool, st: &mut Stats, errs: &mut Vec<String>) {
    let _ = errs;
    let mut rng = SplitMix64::new(mix(seed, 0x5357_0000_0000 + ri));
    let n_inst: usize = match rng.below(10) {
        0..=3 => 1,
        4..=7 => 2,
        _ => 3,
    };
    let ref_cap = if thorough { 12_000 } else { 3_000 };
    let mut instances: Vec<InstSpec> = Vec::new();
    let mut budgets: Vec<Budget> = Vec::new();
    for _ in 0..n_inst {
        let mut inst = gen_instance(&mut rng);
        // reference run of this instance alone: where can faults land, and what are the budgets
        let ref_spec = RunSpec {
            instances: vec![InstSpec { plan: FaultPlan::None, drive: Drive::Poll, extra_polls: 8, ..inst.clone() }],
            sched_seed: 0,
            phased: false,
            solo_baselines: true,
        };
        let rb = Budget { max_calls: ref_cap, max_polls: ref_cap };
        let rr = execute(&ref_spec, &[rb], &ExecOpts { record: false, keep_tail: 0, rec_polls: true, check_isolation: false, rec_items: false });
        if let Some(v) = rr.violation {
            // a builder-contract violation (the reference run injects no fault)
            st.account_run((MODE_SWARM, ri, 0), &ref_spec, &rr.insts, rr.fp);
            st.found(FoundViolation { id: (MODE_SWARM, ri, 0), spec: ref_spec, budgets: vec![rb], violation: v });
            return;
        }
        st.account_run((MODE_SWARM, ri, 100 + instances.len() as u64), &ref_spec, &rr.insts, rr.fp);
        let r = &rr.insts[0];
        if r.built && !rng.chance(0.15) {
            let k = place_fault(&mut rng, r.calls, &r.poll_calls);
            let domain = if rng.chance(0.2) { crate::explore_f::domain_plan(&mut rng, &r.call_args, k) } else { None };
            inst.plan = match rng.below(8) {
                _ if domain.is_some() => domain.unwrap().0,
                0..=2 => FaultPlan::Transient(k),
                3..=5 => FaultPlan::Permanent(k),
                6 => FaultPlan::Burst(k, rng.range(2, 6)),
                _ => {
                    let mut ks = vec![k];
                    for _ in 0..rng.range(1, 3) {
                        ks.push(place_fault(&mut rng, r.calls, &r.poll_calls));
                    }
                    ks.sort_unstable();
                    ks.dedup();
                    FaultPlan::Scattered(ks)
                }
            };
            if !matches!(inst.plan, FaultPlan::Transient(_) | FaultPlan::None) && !inst.payload.has_tag() {
                // several calls may fail: use a payload that says which call it comes from
                inst.payload = Payload::Typed;
            }
        }
        budgets.push(Budget { max_calls: r.calls + 1000, max_polls: r.polls + r.calls + 64 });
        instances.push(inst);
    }
    // derivatives that advance the next instance from inside their own step
    for i in 0..n_inst.saturating_sub(1) {
        if instances[i + 1].drive == Drive::Poll && rng.chance(0.35) {
            instances[i].nested_every = rng.range(1, 5) as u32;
        }
    }
    let sched_seed = if rng.chance(0.3) { 0 } else { rng.next_u64() | 1 };
    // a quarter of the multi-instance runs are sequential: each instance is built and driven to
    // its end before the next one is built (state leaking from a finished or failed solver into
    // a later one shows up only then)
    let phased = n_inst > 1 && rng.chance(0.25);
    let spec = RunSpec { instances, sched_seed, phased, solo_baselines: true };
    let res = execute(&spec, &budgets, &ExecOpts::default());
    st.account_run((MODE_SWARM, ri, 1), &spec, &res.insts, res.fp);
    if spec.instances.iter().any(|i| i.nested_every > 0) && res.insts.iter().any(|s| s.fired > 0) {
        st.probe("fault_fired_in_nested_poll_run");
    }
    if spec.phased && res.insts.iter().any(|s| s.fired > 0) {
        st.probe("fault_fired_in_sequential_multi_instance_run");
    }
    if let Some(v) = res.violation {
        st.found(FoundViolation { id: (MODE_SWARM, ri, 1), spec, budgets, violation: v });
    } else if ri % 4001 == 17 {
        let rec = execute(&spec, &budgets, &ExecOpts { record: true, keep_tail: 16, rec_polls: false, check_isolation: false, rec_items: false });
        st.samples.push(((MODE_SWARM, ri, 1), crate::evidence::sample_json(&spec, &budgets, &rec)));
    }
}
