//! Hermeticity gate: the very first thing a check process executes, on a thread on which no
//! code of the crate has run yet. One sequential (phased) run: a set of probe instances, then a
//! workload of failing, abandoned and rejected solves, then the same probe instances again.
//! Instances with identical specifications must have identical histories; a difference means a
//! solver is influenced by what other solver instances did before it in the process (a static,
//! a thread-local, a cache), which the rest of the exploration - whose runs share a process -
//! could otherwise not attribute to any single run.

use crate::run::Budget;
use crate::spec::*;

fn inst(kind: Kind, dim: DimMode, field: Field, ops_tail: Vec<BOp>, plan: FaultPlan, drive: Drive, payload: Payload) -> InstSpec {
    let mut ops = vec![if dim.dynamic { BOp::NewDyn(dim.n) } else { BOp::New }];
    ops.extend(ops_tail);
    InstSpec {
        kind,
        dim,
        field,
        data: if dim.dynamic { DataMode::Counter } else { DataMode::Unit },
        ops,
        problem: Problem::Linear,
        y0: 1.0,
        plan,
        payload,
        drive,
        extra_polls: 3,
        nested_every: 0,
    }
}

fn complete() -> Vec<BOp> {
    vec![
        BOp::Tol(1e-3),
        BOp::Max(0.1),
        BOp::Min(1e-3),
        BOp::Start(0.0),
        BOp::End(0.45),
        BOp::IcSlice,
        BOp::Deriv,
        BOp::Solve,
    ]
}

pub fn gate_spec() -> (RunSpec, Vec<Budget>) {
    let s2 = DimMode { dynamic: false, n: 2 };
    let d2 = DimMode { dynamic: true, n: 2 };
    let mut probes: Vec<InstSpec> = Vec::new();
    for kind in KINDS {
        for (dim, field) in [(s2, Field::Real), (d2, Field::Complex)] {
            // a fault-free solve, a solve that fails at its second derivative call, a builder
            // chain that is rejected, an incomplete configuration
            probes.push(inst(kind, dim, field, complete(), FaultPlan::None, Drive::Poll, Payload::Typed));
            probes.push(inst(kind, dim, field, complete(), FaultPlan::Transient(2), Drive::Poll, Payload::Typed));
            probes.push(inst(kind, dim, field, vec![BOp::Max(0.1), BOp::Min(-1.0)], FaultPlan::None, Drive::Poll, Payload::Typed));
            probes.push(inst(kind, dim, field, vec![BOp::Max(0.1), BOp::Start(0.0), BOp::Solve], FaultPlan::None, Drive::Poll, Payload::Typed));
        }
    }
    let mut work: Vec<InstSpec> = Vec::new();
    for kind in KINDS {
        for (i, (dim, field)) in [(s2, Field::Complex), (d2, Field::Real)].into_iter().enumerate() {
            let payload = PAYLOADS[(kind.idx() + i) % PAYLOADS.len()];
            work.push(inst(kind, dim, field, complete(), FaultPlan::Permanent(1), Drive::CollectVec, payload));
            work.push(inst(kind, dim, field, complete(), FaultPlan::Transient(3), Drive::ByRefCollect, payload));
            work.push(inst(kind, dim, field, complete(), FaultPlan::Burst(2, 3), Drive::Walk(0), payload));
            work.push(inst(kind, dim, field, vec![BOp::Start(1.0), BOp::End(1.0)], FaultPlan::None, Drive::Poll, payload));
            work.push(inst(kind, dim, field, vec![BOp::Tol(0.0)], FaultPlan::None, Drive::Poll, payload));
            // the wrong constructor for this dimension kind
            let mut wrong = inst(kind, dim, field, vec![], FaultPlan::None, Drive::Poll, payload);
            wrong.ops = vec![if dim.dynamic { BOp::New } else { BOp::NewDyn(2) }];
            work.push(wrong);
        }
    }
    let mut instances = probes.clone();
    instances.extend(work);
    instances.extend(probes);
    let n = instances.len();
    (
        RunSpec { instances, sched_seed: 0, phased: true, solo_baselines: false },
        vec![Budget { max_calls: 20_000, max_polls: 20_000 }; n],
    )
}
