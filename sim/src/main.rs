//! ivpsim — deterministic simulation with fault injection for the IVP part of bacon-sci
//! (property C06). See /verif/DESIGN.md.
//!
//!   ivpsim check --tier quick|thorough [--seed N] [--workers W] --evidence FILE --replays DIR --known FILE
//!   ivpsim replay FILE
//!   ivpsim fingerprints [--seed N] [--workers W]
//!
//! Exit codes: 0 the property held on everything explored; 1 violation (a line
//! `VIOLATION property=C06 replay=<path>` is printed); 2 harness error.

mod evidence;
mod explore_b;
mod explore_f;
mod hermetic;
mod inst;
mod json;
mod minimise;
mod model;
mod prng;
mod probe32;
mod run;
mod spec;
mod stats;
mod stub;
mod swarm;

use json::J;
use stats::{FoundViolation, Stats};
use std::collections::BTreeMap;
use std::sync::atomic::{AtomicUsize, Ordering};
use std::sync::Mutex;

pub const PROBE_NAMES: [&str; 17] = [
    "fault_on_first_call",
    "fault_on_last_call_of_reference_run",
    "fault_after_reference_run",
    "fault_in_multistep_startup",
    "fault_in_multistep_later_poll",
    "fault_in_poll_that_redid_a_trial_step",
    "fault_in_poll_that_ended_with_solver_error",
    "fault_in_poll_that_returned_none",
    "fault_in_final_step",
    "fault_in_bdf_jacobian",
    "fault_in_bdf_broyden_iteration",
    "fault_fired_in_nested_poll_run",
    "fault_fired_in_sequential_multi_instance_run",
    "clamping_branch_ran",
    "domain_fault_plans_placed",
    "fault_on_call_with_non_finite_state",
    "non_finite_state_domain_plans",
];

const DEFAULT_SEED: u64 = 20260926;

/// Run `f(unit)` for every unit in 0..n on a pool of workers. Each worker accumulates its own
/// statistics; they are merged afterwards with commutative operations only, so the result does
/// not depend on the number of workers or on which worker took which unit.
fn par<F>(n: usize, workers: usize, fp_log: bool, f: F) -> (Stats, Vec<String>)
where
    F: Fn(usize, &mut Stats, &mut Vec<String>) + Sync,
{
    let next = AtomicUsize::new(0);
    let merged: Mutex<(Stats, Vec<String>)> = Mutex::new((
        Stats { fp_log: if fp_log { Some(Vec::new()) } else { None }, ..Default::default() },
        Vec::new(),
    ));
    std::thread::scope(|sc| {
        for _ in 0..workers.max(1) {
            sc.spawn(|| {
                let mut st = Stats { fp_log: if fp_log { Some(Vec::new()) } else { None }, ..Default::default() };
                let mut errs = Vec::new();
                loop {
                    let i = next.fetch_add(1, Ordering::Relaxed);
                    if i >= n {
                        break;
                    }
                    f(i, &mut st, &mut errs);
                }
                let mut g = merged.lock().unwrap();
                g.0.merge(st);
                g.1.extend(errs);
            });
        }
    });
    let (mut st, mut errs) = merged.into_inner().unwrap();
    st.violations.sort_by(|a, b| a.id.cmp(&b.id));
    st.samples.sort_by(|a, b| a.0.cmp(&b.0));
    if let Some(l) = st.fp_log.as_mut() {
        l.sort();
    }
    errs.sort();
    (st, errs)
}

struct Args {
    cmd: String,
    tier: String,
    seed: u64,
    workers: usize,
    evidence: Option<String>,
    replays: String,
    known: Option<String>,
    file: Option<String>,
    only: Option<String>,
    terse: bool,
    lite: bool,
    side_evidence: Option<String>,
}

/// Any string is a seed: integers (of any sign and size) are folded into 63 bits, anything else
/// is hashed. The same input always gives the same seed, and nothing is silently ignored.
fn parse_seed(text: &str) -> u64 {
    let t = text.trim();
    match t.parse::<i128>() {
        Ok(v) => v.rem_euclid(1i128 << 63) as u64,
        Err(_) => {
            let mut h = prng::Fnv::default();
            h.bytes(t.as_bytes());
            h.0 & ((1u64 << 63) - 1)
        }
    }
}

fn parse_args() -> Result<Args, String> {
    let argv: Vec<String> = std::env::args().collect();
    if argv.len() < 2 {
        return Err("usage: ivpsim check|replay|fingerprints ...".into());
    }
    let env_seed = std::env::var("VERIF_SEED").ok().filter(|s| !s.trim().is_empty()).map(|s| parse_seed(&s));
    let env_tier = std::env::var("VERIF_TIER").ok().filter(|t| t == "quick" || t == "thorough");
    let mut a = Args {
        cmd: argv[1].clone(),
        tier: String::new(),
        seed: env_seed.unwrap_or(DEFAULT_SEED),
        workers: std::thread::available_parallelism().map(|n| n.get()).unwrap_or(4),
        evidence: None,
        replays: "replays".into(),
        known: None,
        file: None,
        only: None,
        terse: false,
        lite: false,
        side_evidence: None,
    };
    let mut i = 2;
    while i < argv.len() {
        let need = |i: usize| argv.get(i + 1).cloned().ok_or(format!("{} needs a value", argv[i]));
        match argv[i].as_str() {
            "--tier" => {
                a.tier = need(i)?;
                i += 1;
            }
            "--seed" => {
                a.seed = parse_seed(&need(i)?);
                i += 1;
            }
            "--workers" => {
                a.workers = need(i)?.parse().map_err(|_| "bad --workers")?;
                i += 1;
            }
            "--evidence" => {
                a.evidence = Some(need(i)?);
                i += 1;
            }
            "--replays" => {
                a.replays = need(i)?;
                i += 1;
            }
            "--known" => {
                a.known = Some(need(i)?);
                i += 1;
            }
            "--only" => {
                a.only = Some(need(i)?);
                i += 1;
            }
            "--terse" => a.terse = true,
            "--lite" => a.lite = true,
            "--side-evidence" => {
                a.side_evidence = Some(need(i)?);
                i += 1;
            }
            s if !s.starts_with("--") && a.file.is_none() => a.file = Some(s.to_string()),
            s => return Err(format!("unknown argument {}", s)),
        }
        i += 1;
    }
    if a.tier.is_empty() {
        a.tier = env_tier.unwrap_or_else(|| "quick".into());
    }
    if a.tier != "quick" && a.tier != "thorough" {
        return Err(format!("unknown tier {}", a.tier));
    }
    Ok(a)
}

struct Plan {
    thorough: bool,
    ftier: explore_f::FTier,
    maxlen: usize,
    ins_extras: usize,
    swarm_runs: u64,
}

fn plan_for(tier: &str, lite: bool) -> Plan {
    if lite {
        // reduced pass, run with the debug-assertions build
        let mut ft = explore_f::FTier::quick();
        ft.exhaustive_cap = if tier == "thorough" { 500 } else { 300 };
        ft.ref_budget = 2_500;
        ft.sample_k = 24;
        return Plan { thorough: false, ftier: ft, maxlen: 4, ins_extras: 1, swarm_runs: if tier == "thorough" { 60_000 } else { 15_000 } };
    }
    if tier == "thorough" {
        Plan { thorough: true, ftier: explore_f::FTier::thorough(), maxlen: 6, ins_extras: 3, swarm_runs: 400_000 }
    } else {
        Plan { thorough: false, ftier: explore_f::FTier::quick(), maxlen: 5, ins_extras: 2, swarm_runs: 60_000 }
    }
}

/// The fixed slice of runs used to show that a run's fingerprint depends on (seed, index) only.
fn determinism_slice(seed: u64, workers: usize) -> (Vec<(stats::RunId, u64)>, u64) {
    let ft = explore_f::FTier::quick();
    let groups = explore_f::groups(&ft);
    let picked: Vec<usize> = (0..groups.len()).filter(|g| g % 41 == 3).collect();
    let (s1, _) = par(picked.len(), workers, true, |i, st, _errs| {
        let gi = picked[i];
        let _ = explore_f::run_group(seed, gi as u64, &groups[gi], &ft, st);
    });
    let (s2, _) = par(768, workers, true, |i, st, errs| {
        swarm::swarm_run(seed, i as u64, false, st, errs);
    });
    let mut all = s1.fp_log.unwrap_or_default();
    all.extend(s2.fp_log.unwrap_or_default());
    all.sort();
    let mut h = prng::Fnv::default();
    for (id, fp) in &all {
        h.u8(id.0);
        h.u64(id.1);
        h.u64(id.2);
        h.u64(*fp);
    }
    (all, h.0)
}

/// Replay files are only as good as the round trip of a run through JSON: every fault-plan kind,
/// consumer mode, payload kind, workload, solver and a set of awkward floats must come back
/// bit for bit, and the run read back must execute to the same fingerprint.
fn cmd_selftest(a: &Args) -> i32 {
    use spec::*;
    start_watchdog(a);
    let mut rng = prng::SplitMix64::new(prng::mix(a.seed, 0x5E1F));
    let plans = vec![
        FaultPlan::None,
        FaultPlan::Transient(3),
        FaultPlan::Permanent(u64::MAX >> 24),
        FaultPlan::Burst(2, 5),
        FaultPlan::Scattered(vec![1, 4, 9]),
        FaultPlan::TimeAbove(0.1f64.to_bits()),
        FaultPlan::TimeAbove((-0.0f64).to_bits()),
        FaultPlan::NormAbove(f64::MAX.to_bits()),
        FaultPlan::NormAbove(f64::MIN_POSITIVE.to_bits()),
        FaultPlan::TimeWindow(1e-300f64.to_bits(), (1.0 + f64::EPSILON).to_bits()),
    ];
    let mut drives = vec![
        Drive::Poll, Drive::CollectVec, Drive::ByRefCollect, Drive::TakeBursts(3), Drive::Nth0,
        Drive::PollThenCollect, Drive::PollThenCount, Drive::PollThenLast, Drive::PollThenNth(2),
        Drive::NthSkip(4), Drive::Count, Drive::Last,
    ];
    for k in 0..5u8 {
        drives.push(Drive::Walk(k));
        drives.push(Drive::PollThenWalk(k));
    }
    drives.push(Drive::WalkOwned(0));
    drives.push(Drive::WalkOwned(1));
    drives.push(Drive::PollNThenCollect(3));
    let floats = [0.0, -0.0, 1e-3, 5e-324, f64::MIN_POSITIVE, 1.0 + f64::EPSILON, -1000.0, 1e300, 0.1 + 0.2];
    let mut n = 0u64;
    let mut bad = 0u64;
    for (pi, plan) in plans.iter().enumerate() {
        for (di, drive) in drives.iter().enumerate() {
            let kind = KINDS[(pi + di) % KINDS.len()];
            let dynamic = (pi + di) % 2 == 0;
            let nn = if dynamic && di % 5 == 0 { 9 + (pi as u8) * 20 } else { 1 + ((pi * 7 + di) % 4) as u8 };
            let f = |i: usize| floats[(pi * 3 + di + i) % floats.len()];
            let inst = InstSpec {
                kind,
                dim: DimMode { dynamic, n: nn },
                field: if di % 2 == 0 { Field::Real } else { Field::Complex },
                data: if pi % 2 == 0 { DataMode::Unit } else { DataMode::Counter },
                ops: vec![
                    if dynamic { BOp::NewDyn(nn) } else { BOp::New },
                    BOp::Tol(f(0).abs().max(1e-9)),
                    BOp::Max(0.1),
                    BOp::Min(f(1)),
                    BOp::Start(f(2)),
                    BOp::End(f(3)),
                    BOp::IcSlice,
                    BOp::IcVec,
                    BOp::Deriv,
                    BOp::Solve,
                ],
                problem: PROBLEMS[(pi + 2 * di) % PROBLEMS.len()],
                y0: f(4),
                plan: plan.clone(),
                payload: PAYLOADS[(pi + di) % PAYLOADS.len()],
                drive: *drive,
                extra_polls: (di % 9) as u8,
                nested_every: (pi % 3) as u32,
            };
            let spec = RunSpec { instances: vec![inst.clone(), inst], sched_seed: rng.next_u64(), phased: di % 2 == 1, solo_baselines: pi % 2 == 0 };
            let text = spec.to_json().to_string_pretty();
            let back = json::parse(&text).map_err(|e| e.to_string()).and_then(|j| RunSpec::from_json(&j));
            n += 1;
            match back {
                Ok(b) if b == spec && b.to_json().to_string_compact() == spec.to_json().to_string_compact() => {}
                Ok(_) => {
                    bad += 1;
                    eprintln!("selftest: run changed in the JSON round trip: {}", spec.to_json().to_string_compact());
                }
                Err(e) => {
                    bad += 1;
                    eprintln!("selftest: run does not parse back ({}): {}", e, spec.to_json().to_string_compact());
                }
            }
        }
    }
    // executed fingerprints survive the round trip too (a sample of real runs)
    let ft = explore_f::FTier::quick();
    let groups = explore_f::groups(&ft);
    for gi in (0..groups.len()).step_by(groups.len() / 40 + 1) {
        for plan in [FaultPlan::Transient(5), FaultPlan::TimeAbove(0.01f64.to_bits()), FaultPlan::NormAbove(f64::MAX.to_bits())] {
            let spec = RunSpec {
                instances: vec![InstSpec { plan, drive: Drive::Walk((gi % 5) as u8), ..groups[gi].clone() }],
                sched_seed: 0,
                phased: false,
                solo_baselines: true,
            };
            let b = [run::Budget { max_calls: 3_000, max_polls: 3_000 }];
            let r1 = run::execute(&spec, &b, &run::ExecOpts::default());
            let back = json::parse(&spec.to_json().to_string_pretty()).ok().and_then(|j| RunSpec::from_json(&j).ok());
            n += 1;
            match back {
                Some(s2) => {
                    let r2 = run::execute(&s2, &b, &run::ExecOpts::default());
                    if r1.fp != r2.fp {
                        bad += 1;
                        eprintln!("selftest: fingerprint differs after the round trip: {}", spec.to_json().to_string_compact());
                    }
                }
                None => bad += 1,
            }
        }
    }
    println!("selftest: {} runs through the JSON round trip, {} changed", n, bad);
    if bad > 0 {
        2
    } else {
        0
    }
}

fn cmd_fingerprints(a: &Args) -> i32 {
    start_watchdog(a);
    let (all, digest) = determinism_slice(a.seed, a.workers);
    println!("runs={} digest={:016x}", all.len(), digest);
    if a.file.as_deref() == Some("dump") {
        for (id, fp) in all {
            println!("{} {} {} {:016x}", id.0, id.1, id.2, fp);
        }
    }
    0
}

/// Known findings: (signature, what, minimised run as compact JSON). An entry identifies one
/// specific failing history (the minimised run the check prints for it); another violation of the
/// same class on the same solver is not covered by it.
fn load_known(path: &Option<String>) -> Result<Vec<(String, String, String)>, String> {
    let p = match path {
        Some(p) => p,
        None => return Ok(Vec::new()),
    };
    let text = match std::fs::read_to_string(p) {
        Ok(t) => t,
        Err(_) => return Ok(Vec::new()),
    };
    let j = json::parse(&text).map_err(|e| format!("{}: {}", p, e))?;
    let mut out = Vec::new();
    if let Some(arr) = j.get("findings").and_then(|x| x.as_arr()) {
        for f in arr {
            if f.get("property").and_then(|x| x.as_str()) == Some("C06") {
                let sig = f.get("signature").and_then(|x| x.as_str()).unwrap_or("").to_string();
                let what = f.get("what").and_then(|x| x.as_str()).unwrap_or("").to_string();
                let run = match f.get("run") {
                    Some(r) => spec::RunSpec::from_json(r).map_err(|e| format!("{}: finding {}: bad run: {}", p, sig, e))?.to_json().to_string_compact(),
                    None => return Err(format!("{}: finding {} has no \"run\" (the minimised run that identifies it)", p, sig)),
                };
                if !sig.is_empty() {
                    out.push((sig, what, run));
                }
            }
        }
    }
    Ok(out)
}

fn write_replay(dir: &str, a: &Args, fv: &FoundViolation, m: &minimise::Minimised) -> Result<String, String> {
    std::fs::create_dir_all(dir).map_err(|e| e.to_string())?;
    let rec = run::execute(
        &m.spec,
        &m.budgets,
        &run::ExecOpts { record: true, keep_tail: 200, rec_polls: false, check_isolation: true, rec_items: false },
    );
    let mut events = Vec::new();
    if let Some(ev) = rec.events.as_ref() {
        for (i, e) in ev.iter().enumerate() {
            events.push(e.to_json(rec.first_seq_kept + i as u64));
        }
    }
    let j = J::obj(vec![
        ("property", J::s("C06")),
        ("class", J::s(m.violation.class)),
        ("signature", J::S(FoundViolation { id: fv.id, spec: m.spec.clone(), budgets: m.budgets.clone(), violation: m.violation.clone() }.signature())),
        ("detail", J::S(m.violation.detail.clone())),
        ("violating_instance", J::U(m.violation.inst as u64)),
        ("seed", J::U(a.seed)),
        ("tier", J::S(a.tier.clone())),
        ("found_with_build", J::s(if cfg!(debug_assertions) { "dbgassert" } else { "release" })),
        (
            "found_in",
            J::obj(vec![("mode", J::s(stats::mode_name(fv.id.0))), ("group", J::U(fv.id.1)), ("sub", J::U(fv.id.2))]),
        ),
        ("minimise_candidates_tried", J::U(m.steps_tried)),
        ("minimise_candidates_accepted", J::U(m.steps_accepted)),
        ("spec", m.spec.to_json()),
        ("budgets", run::budgets_to_json(&m.budgets)),
        ("original_spec", fv.spec.to_json()),
        ("original_detail", J::S(fv.violation.detail.clone())),
        ("events_tail", J::A(events)),
        ("replay", J::s("ivpsim replay <this file>  (or: /verif/check --replay <this file>)")),
    ]);
    let solver = m.spec.instances.get(m.violation.inst as usize).map(|i| i.kind.name()).unwrap_or("x");
    let name = format!(
        "C06{}-{}-{}-{}-{}-{}-{}.json",
        if cfg!(debug_assertions) { "-dbgassert" } else { "" },
        a.seed,
        stats::mode_name(fv.id.0),
        fv.id.1,
        fv.id.2,
        m.violation.class,
        solver
    );
    let path = format!("{}/{}", dir.trim_end_matches('/'), name);
    std::fs::write(&path, j.to_string_pretty()).map_err(|e| e.to_string())?;
    Ok(path)
}

fn cmd_replay(a: &Args) -> i32 {
    let path = match &a.file {
        Some(p) => p.clone(),
        None => {
            eprintln!("replay: no file given");
            return 2;
        }
    };
    let text = match std::fs::read_to_string(&path) {
        Ok(t) => t,
        Err(e) => {
            eprintln!("replay: cannot read {}: {}", path, e);
            return 2;
        }
    };
    let j = match json::parse(&text) {
        Ok(j) => j,
        Err(e) => {
            eprintln!("replay: {}: {}", path, e);
            return 2;
        }
    };
    if let Some(p) = j.get("probe32") {
        // a chain of the single-precision builder probe
        let case = match probe32::Case32::from_json(p) {
            Ok(c) => c,
            Err(e) => {
                eprintln!("replay: {}: {}", path, e);
                return 2;
            }
        };
        return match probe32::eval_both(&case) {
            Some(m) => {
                println!("REPRODUCED class=builder-mismatch: {}", m.describe());
                println!("VIOLATION property=C06 replay={}", path);
                1
            }
            None => {
                println!("NOT REPRODUCED: the chain in this file agrees with the builder contract on the current tree");
                0
            }
        };
    }
    let spec = match j.get("spec").ok_or("no spec".to_string()).and_then(spec::RunSpec::from_json) {
        Ok(s) => s,
        Err(e) => {
            eprintln!("replay: {}: {}", path, e);
            return 2;
        }
    };
    let budgets = match j.get("budgets").ok_or("no budgets".to_string()).and_then(run::budgets_from_json) {
        Ok(b) => b,
        Err(e) => {
            eprintln!("replay: {}: {}", path, e);
            return 2;
        }
    };
    let want = j.get("class").and_then(|x| x.as_str()).unwrap_or("").to_string();
    let had_fired = j.get("fault_had_fired").and_then(|x| x.as_bool());
    // a replay of a run that does not terminate must itself terminate
    {
        let path2 = path.clone();
        let want2 = want.clone();
        std::thread::spawn(move || {
            std::thread::sleep(std::time::Duration::from_millis(if want2 == "no-termination" { 20_000 } else { WATCHDOG_LIMIT_MS }));
            if want2 == "no-termination" && had_fired == Some(false) {
                println!("the run did not return; no fault had fired in it, which C06 does not speak about (recorded as a harness error, not as a violation)");
                std::process::exit(2);
            }
            println!("REPRODUCED class=no-termination instance=0: the run did not return");
            println!("VIOLATION property=C06 replay={}", path2);
            std::process::exit(1);
        });
    }
    let res = run::execute(&spec, &budgets, &run::ExecOpts { record: true, keep_tail: 60, rec_polls: false, check_isolation: true, rec_items: false });
    if !a.terse {
        println!("replay of {}", path);
        println!("run: {}", spec.to_json().to_string_compact());
        if let Some(ev) = res.events.as_ref() {
            for (i, e) in ev.iter().enumerate() {
                println!("  {}", e.to_json(res.first_seq_kept + i as u64).to_string_compact());
            }
        }
    }
    println!("fingerprint {:016x}", res.fp);
    match res.violation {
        Some(v) if v.class == want || want.is_empty() => {
            println!("REPRODUCED class={} instance={}: {}", v.class, v.inst, v.detail);
            println!("VIOLATION property=C06 replay={}", path);
            1
        }
        Some(v) => {
            // still a violation of C06 by the same run; the class is part of the message only
            println!("REPRODUCED with a different class={} (file says {}) instance={}: {}", v.class, want, v.inst, v.detail);
            println!("VIOLATION property=C06 replay={}", path);
            1
        }
        None => {
            println!("NOT REPRODUCED: the run in this file violates nothing on the current tree");
            0
        }
    }
}

/// A run that has not returned after this long is not going to (the longest legitimate run takes
/// well under a second even on a loaded machine; the budgets of the stub bound everything that
/// calls the derivative).
const WATCHDOG_LIMIT_MS: u64 = 45_000;

/// Before the process is ended because of a run that does not return: report the violations
/// the workers have found so far (not minimised), so that the exit code cannot hide them.
fn flush_pending(replays: &str, seed: u64) -> usize {
    let pending: Vec<(String, String)> = run::watch::PENDING.lock().map(|g| g.clone()).unwrap_or_default();
    let _ = std::fs::create_dir_all(replays);
    let mut n = 0;
    for (i, (sig, doc)) in pending.iter().enumerate() {
        let path = format!("{}/C06-{}-unminimised-{}-{}.json", replays.trim_end_matches('/'), seed, i, sig.replace(':', "-"));
        if std::fs::write(&path, doc).is_ok() {
            println!("violation signature={} (found before a run that does not return ended the exploration; not minimised)", sig);
            println!("VIOLATION property=C06 replay={}", path);
            n += 1;
        }
    }
    n
}

fn start_watchdog(a: &Args) {
    let replays = a.replays.clone();
    let seed = a.seed;
    let tier = a.tier.clone();
    std::thread::spawn(move || {
        let mut last_beat: Vec<(u64, u64)> = vec![(0, 0); run::watch::SLOTS];
        loop {
            std::thread::sleep(std::time::Duration::from_millis(1_000));
            let now = run::watch::now_ms();
            for (si, slot) in run::watch::slots().iter().enumerate() {
                // the builder fast path: no run to time, a progress counter instead
                if slot.in_fast.load(std::sync::atomic::Ordering::Acquire) && slot.started_ms.load(std::sync::atomic::Ordering::Acquire) == 0 {
                    let b = slot.beat.load(std::sync::atomic::Ordering::Relaxed);
                    if last_beat[si].0 != b {
                        last_beat[si] = (b, now);
                    } else if now.saturating_sub(last_beat[si].1) > WATCHDOG_LIMIT_MS {
                        let n = flush_pending(&replays, seed);
                        eprintln!(
                            "HARNESS-ERROR: the builder enumeration made no progress for {} s: a builder call (constructor, setter or solve) does not return; the chain cannot be identified from outside the worker",
                            WATCHDOG_LIMIT_MS / 1000
                        );
                        std::process::exit(if n > 0 { 1 } else { 2 });
                    }
                    continue;
                }
                last_beat[si].1 = now;
                let st = slot.started_ms.load(std::sync::atomic::Ordering::Acquire);
                if st != 0 && now.saturating_sub(st) > WATCHDOG_LIMIT_MS {
                    let fired = slot.fired.load(std::sync::atomic::Ordering::Relaxed);
                    let taken = slot.spec.lock().ok().and_then(|g| g.clone());
                    if let Some((spec, budgets)) = taken {
                        let _ = std::fs::create_dir_all(&replays);
                        let path = format!("{}/C06-{}-no-termination-{}.json", replays.trim_end_matches('/'), seed, st);
                        let j = J::obj(vec![
                            ("property", J::s("C06")),
                            ("class", J::s("no-termination")),
                            ("detail", J::s("this run did not return: some call into the crate loops without calling the derivative")),
                            ("seed", J::U(seed)),
                            ("tier", J::S(tier.clone())),
                            ("found_with_build", J::s(if cfg!(debug_assertions) { "dbgassert" } else { "release" })),
                            ("fault_had_fired", J::Bool(fired)),
                            ("spec", spec.to_json()),
                            ("budgets", run::budgets_to_json(&budgets)),
                        ]);
                        let _ = std::fs::write(&path, j.to_string_pretty());
                        let n = flush_pending(&replays, seed);
                        if fired {
                            println!("violation class=no-termination : after the derivative of the instance being driven had returned Err, a call into the solver did not return within {} s", WATCHDOG_LIMIT_MS / 1000);
                            println!("  run: {}", spec.to_json().to_string_compact());
                            println!("VIOLATION property=C06 replay={}", path);
                            std::process::exit(1);
                        } else {
                            eprintln!("HARNESS-ERROR: a run did not return within {} s although no fault had fired in the instance being driven (a solve that does not terminate is outside C06; the exploration cannot continue); run written to {}", WATCHDOG_LIMIT_MS / 1000, path);
                            std::process::exit(if n > 0 { 1 } else { 2 });
                        }
                    }
                }
            }
        }
    });
}

fn cmd_check(a: &Args) -> i32 {
    let t0 = std::time::Instant::now();
    start_watchdog(a);
    let plan = plan_for(&a.tier, a.lite);
    let lite = a.lite;
    let seed = a.seed;
    let workers = a.workers.max(1);
    println!(
        "ivpsim check: property=C06 tier={} seed={} workers={} build={}{}",
        a.tier,
        seed,
        workers,
        if cfg!(debug_assertions) { "debug-assertions+overflow-checks" } else { "release" },
        if lite { " (reduced pass)" } else { "" }
    );
    let known = match load_known(&a.known) {
        Ok(k) => k,
        Err(e) => {
            eprintln!("HARNESS-ERROR: {}", e);
            return 2;
        }
    };
    let only = a.only.clone();
    let enabled = |m: &str| only.as_deref().map(|o| o.split(',').any(|x| x == m)).unwrap_or(true);

    let mut total = Stats::default();
    let mut harness: Vec<String> = Vec::new();

    // 0. hermeticity gate: first use of the crate in this process, on this thread
    let mut gate_failed = false;
    if enabled("gate") {
        let (spec, budgets) = hermetic::gate_spec();
        let res = run::execute(&spec, &budgets, &run::ExecOpts::default());
        total.account_run((stats::MODE_GATE, 0, 0), &spec, &res.insts, res.fp);
        match res.violation {
            Some(v) => {
                gate_failed = true;
                println!("hermeticity gate: FAILED ({})", v.class);
                total.found(FoundViolation { id: (stats::MODE_GATE, 0, 0), spec, budgets, violation: v });
            }
            None => println!("hermeticity gate: {} instances in one sequential run (probe set, failing/abandoned/rejected workload, probe set again): identical histories", res.insts.len()),
        }
    }
    let only = if gate_failed { Some("none".to_string()) } else { only };
    let enabled = |m: &str| only.as_deref().map(|o| o.split(',').any(|x| x == m)).unwrap_or(true);

    // 1. determinism of the simulator itself, on a fixed slice, at two worker counts
    let mut det = J::s("skipped");
    if enabled("det") && !lite {
        let (a1, d1) = determinism_slice(seed, 1.max(workers / 4));
        let (a2, d2) = determinism_slice(seed, workers);
        if d1 != d2 || a1 != a2 {
            let first = a1.iter().zip(a2.iter()).find(|(x, y)| x != y);
            eprintln!("HARNESS-ERROR: determinism self-check failed: digests {:016x} vs {:016x}, first difference {:?}", d1, d2, first);
            return 2;
        }
        det = J::obj(vec![
            ("runs_executed_twice", J::U(a1.len() as u64)),
            ("worker_counts", J::A(vec![J::U(1.max(workers / 4) as u64), J::U(workers as u64)])),
            ("digest", J::S(format!("{:016x}", d1))),
            ("result", J::s("identical per-run fingerprints")),
        ]);
        println!("determinism slice: {} runs x2, digest {:016x}, identical", a1.len(), d1);
    }

    let alphabet = explore_b::alphabet();

    // 1. builder half: exhaustive chains
    if enabled("bexh") {
        let units = explore_b::bexh_units(alphabet.len());
        let t = std::time::Instant::now();
        let (st, errs) = par(units.len(), workers, false, |i, st, errs| {
            explore_b::run_bexh_unit(stats::MODE_BEXH, i as u64, &units[i], &alphabet, plan.maxlen, plan.maxlen - 1, st, errs);
        });
        println!(
            "builder chains (<= {} calls, exhaustive): {} chains, {} builder calls, {} rejected, {} built, {} hook reads ({} clamped), {:.1}s",
            plan.maxlen, st.chains, st.builder_calls, st.chains_rejected, st.chains_built, st.hook_reads, st.hook_clamped, t.elapsed().as_secs_f64()
        );
        total.merge(st);
        harness.extend(errs);
    }
    // 1b. builder half: the interacting setter pairs, deeper
    if enabled("bsub") && !lite {
        for (si, (name, sub, depth)) in explore_b::sub_alphabets(plan.thorough).into_iter().enumerate() {
            let units = explore_b::bsub_units(sub.len());
            let t = std::time::Instant::now();
            let before = total.chains;
            let (st, errs) = par(units.len(), workers, false, |i, st, errs| {
                explore_b::run_bexh_unit(stats::MODE_BSUB, (si as u64 + 1) * 1_000_000 + i as u64, &units[i], &sub, depth, depth - 1, st, errs);
            });
            total.merge(st);
            harness.extend(errs);
            println!("builder chains over the {} setters only (<= {} calls, exhaustive): {} chains, {:.1}s", name, depth, total.chains - before, t.elapsed().as_secs_f64());
        }
    }
    // 2. builder half: all orders of the complete configuration
    if enabled("bperm") {
        let units = explore_b::bperm_units();
        let t = std::time::Instant::now();
        let before = total.chains;
        let (st, errs) = par(units.len(), workers, false, |i, st, errs| {
            explore_b::run_bperm_unit(i as u64, &units[i], st, errs);
        });
        total.merge(st);
        harness.extend(errs);
        println!("builder orders (5040 orders x 2 variants x 56 builders): {} chains, {:.1}s", total.chains - before, t.elapsed().as_secs_f64());
    }
    // 2b. builder half: the complete configuration minus every subset of its setters
    if enabled("bmiss") {
        let units = explore_b::bperm_units();
        let t = std::time::Instant::now();
        let before = total.chains;
        let (st, errs) = par(units.len(), workers, false, |i, st, errs| {
            explore_b::run_bmissing_unit(i as u64, &units[i], st, errs);
        });
        total.merge(st);
        harness.extend(errs);
        println!("builder missing-parameter subsets (3 orders x 127 subsets x {} builders): {} chains, {:.1}s", units.len(), total.chains - before, t.elapsed().as_secs_f64());
    }
    // 3. builder half: complete configuration with insertions
    if enabled("bins") {
        let units = explore_b::bins_units();
        let t = std::time::Instant::now();
        let before = total.chains;
        let (st, errs) = par(units.len(), workers, false, |i, st, errs| {
            explore_b::run_bins_unit(i as u64, &units[i], &alphabet, plan.ins_extras, st, errs);
        });
        total.merge(st);
        harness.extend(errs);
        println!("builder insertions (complete configuration + up to {} extra calls): {} chains, {:.1}s", plan.ins_extras, total.chains - before, t.elapsed().as_secs_f64());
    }
    // 3b. builder half in single precision (f32, Complex<f32>): chains of <= 3 setters, completed
    let mut probe32_reported = 0u64;
    let mut probe32_stats = (0u64, 0u64, 0u64);
    if enabled("b32") {
        let units = probe32::units();
        let t = std::time::Instant::now();
        let results: Mutex<Vec<probe32::Probe32Result>> = Mutex::new(Vec::new());
        let depth = if plan.thorough { 4 } else { 3 };
        let _ = par(units.len(), workers, false, |i, _st, _errs| {
            let (kind, dynamic, complex) = units[i];
            let r = probe32::run_unit(kind, dynamic, complex, depth);
            results.lock().unwrap().push(r);
        });
        let mut mism: Vec<probe32::Mismatch32> = Vec::new();
        for r in results.into_inner().unwrap() {
            probe32_stats.0 += r.chains;
            probe32_stats.1 += r.calls;
            probe32_stats.2 += r.built;
            mism.extend(r.mismatches);
        }
        mism.sort_by(|a, b| (a.case.kind.idx(), a.case.complex, a.case.dynamic, a.case.ops.len()).cmp(&(b.case.kind.idx(), b.case.complex, b.case.dynamic, b.case.ops.len())));
        println!(
            "builder chains in single precision (<= {} calls + completion, 7 builders x {{Const<1>,Dyn(2)}} x {{f32,Complex<f32>}}): {} chains, {} builder calls, {} built, {:.1}s",
            depth, probe32_stats.0, probe32_stats.1, probe32_stats.2, t.elapsed().as_secs_f64()
        );
        let mut seen: Vec<(usize, String)> = Vec::new();
        for m in &mism {
            let m = probe32::minimise32(m);
            let key = (m.case.kind.idx(), format!("{}:{}", m.got.name(), m.want.name()));
            if seen.contains(&key) || seen.len() >= 8 {
                continue;
            }
            seen.push(key);
            let _ = std::fs::create_dir_all(&a.replays);
            let path = format!(
                "{}/C06{}-{}-f32-builder-{}-{}.json",
                a.replays.trim_end_matches('/'),
                if cfg!(debug_assertions) { "-dbgassert" } else { "" },
                seed,
                m.case.kind.name(),
                seen.len()
            );
            let doc = J::obj(vec![
                ("property", J::s("C06")),
                ("class", J::s(if m.got == model::Outcome::Panic { "builder-panic" } else { "builder-mismatch" })),
                ("detail", J::S(m.describe())),
                ("found_with_build", J::s(if cfg!(debug_assertions) { "dbgassert" } else { "release" })),
                ("probe32", m.case.to_json()),
            ]);
            if std::fs::write(&path, doc.to_string_pretty()).is_err() {
                harness.push(format!("cannot write {}", path));
                continue;
            }
            let ok = std::env::current_exe()
                .ok()
                .and_then(|exe| std::process::Command::new(exe).arg("replay").arg(&path).output().ok())
                .map(|o| o.status.code() == Some(1))
                .unwrap_or(false);
            if !ok {
                harness.push(format!("single-precision builder mismatch did not reproduce from {}", path));
                continue;
            }
            let cls = if m.got == model::Outcome::Panic { "builder-panic" } else { "builder-mismatch" };
            println!("violation class={} solver-signature={}-f32:{} : {}", cls, cls, m.case.kind.name(), m.describe());
            println!("  chain: {}", m.case.to_json().to_string_compact());
            println!("VIOLATION property=C06 replay={}", path);
            probe32_reported += 1;
        }
    }
    if total.hook_clamped > 0 {
        *total.probes.entry("clamping_branch_ran").or_insert(0) += total.hook_clamped;
    }
    // 4. fault grid
    let mut f_groups = 0u64;
    if enabled("fgrid") {
        let mut groups = explore_f::groups(&plan.ftier);
        groups.extend(explore_b::bperm_f_groups());
        if lite {
            // every third group of the grid (the grid's axes have no period 3 in common, so every solver,
            // problem, parameter set, dimension mode and field still occurs)
            groups = groups.into_iter().enumerate().filter(|(i, _)| i % 3 == 2).map(|(_, g)| g).collect();
        }
        f_groups = groups.len() as u64;
        let t = std::time::Instant::now();
        let ft = plan.ftier;
        let (st, errs) = par(groups.len(), workers, false, |i, st, errs| {
            let o = explore_f::run_group(seed, i as u64, &groups[i], &ft, st);
            errs.extend(o.harness_errors);
        });
        println!(
            "fault grid: {} groups, {} runs, {} with a fault fired, {} derivative calls, {:.1}s",
            groups.len(), st.runs, st.fired_runs, st.deriv_calls, t.elapsed().as_secs_f64()
        );
        total.merge(st);
        harness.extend(errs);
    }
    // 5. swarm
    if enabled("swarm") {
        let t = std::time::Instant::now();
        let thorough = plan.thorough;
        let (st, errs) = par(plan.swarm_runs as usize, workers, false, |i, st, errs| {
            swarm::swarm_run(seed, i as u64, thorough, st, errs);
        });
        println!(
            "swarm: {} runs ({} multi-instance, {} with nested polls), {} with a fault fired, {:.1}s",
            st.runs, st.multi_runs, st.nested_polls_runs, st.fired_runs, t.elapsed().as_secs_f64()
        );
        total.merge(st);
        harness.extend(errs);
    }
    total.violations.sort_by(|x, y| x.id.cmp(&y.id));

    // 6. violations: one report per signature, minimised, replayed in a fresh process
    let mut by_sig: BTreeMap<String, &FoundViolation> = BTreeMap::new();
    let mut sig_order: Vec<String> = Vec::new();
    for fv in &total.violations {
        let s = fv.signature();
        if !by_sig.contains_key(&s) {
            by_sig.insert(s.clone(), fv);
            sig_order.push(s);
        }
    }
    let mut reported = probe32_reported;
    let mut known_matched = 0u64;
    let exe = std::env::current_exe().ok();
    for sig in sig_order.iter().take(12) {
        let fv = by_sig[sig];
        let m = match (fv.id.0 == stats::MODE_GATE, exe.as_ref()) {
            (true, Some(exe)) => minimise::minimise_fresh(exe, &a.replays, &fv.spec, fv.budgets[0], &fv.violation),
            _ => minimise::minimise(&fv.spec, &fv.budgets, &fv.violation),
        };
        let msig = FoundViolation { id: fv.id, spec: m.spec.clone(), budgets: m.budgets.clone(), violation: m.violation.clone() }.signature();
        let mrun = m.spec.to_json().to_string_compact();
        if let Some((_, what, _)) = known.iter().find(|(s, _, r)| *s == msig && *r == mrun) {
            println!("KNOWN-FINDING: property=C06 {} ({})", what, msig);
            known_matched += 1;
            continue;
        }
        let path = match write_replay(&a.replays, a, fv, &m) {
            Ok(p) => p,
            Err(e) => {
                harness.push(format!("cannot write the replay file of violation {}: {}", msig, e));
                continue;
            }
        };
        // replay in a fresh process; it must fail the same way
        let ok = match exe.as_ref() {
            Some(exe) => std::process::Command::new(exe)
                .arg("replay")
                .arg(&path)
                .output()
                .map(|o| o.status.code() == Some(1))
                .unwrap_or(false),
            None => false,
        };
        if !ok {
            // keep going: other signatures may well reproduce, and exit 2 must not hide them
            harness.push(format!(
                "violation {} did not reproduce from its replay file {} in a fresh process (does the code under test keep state between solver instances?)",
                msig, path
            ));
            continue;
        }
        println!("violation class={} solver-signature={} : {}", m.violation.class, msig, m.violation.detail);
        println!("  minimised run: {}", m.spec.to_json().to_string_compact());
        println!("VIOLATION property=C06 replay={}", path);
        reported += 1;
    }
    if total.violations.len() > 0 {
        println!("{} violating run(s) in total, {} distinct signature(s)", total.violations.len(), sig_order.len());
    }

    // 7. evidence
    let wall = t0.elapsed().as_secs_f64();
    if let Some(p) = &a.evidence {
        let meta = evidence::EvidenceMeta {
            tier: &a.tier,
            seed,
            wall_s: wall,
            workers,
            violations_reported: reported,
            known_findings_matched: known_matched,
            determinism: det,
            exhaustive_note: format!(
                "enumerated completely: (a) every builder call chain of <= {} setters over the {}-symbol alphabet, cut at the first rejected call, with solve() after every accepted prefix, and every accepted chain of <= {} setters additionally completed with canonical valid values and built, for 7 builders x {{Const<1>,Const<2>,Const<3>,Dyn}} x {{f64,Complex<f64>}} and both constructors; (b) all 5040 orders of the 7 setters of a complete configuration in 2 variants for the same 56 builders; (c) the complete configuration in 3 orders with up to {} extra calls inserted; (d) for each of {} fault-grid groups whose reference run has <= {} derivative calls: a failing call at every k in 1..=N+1, as a transient and as a permanent fault. Sampled: k for longer reference runs, burst/scattered/domain plans, swarm runs.",
                plan.maxlen,
                alphabet.len(),
                plan.maxlen - 1,
                plan.ins_extras,
                total.ref_exhaustive_groups,
                plan.ftier.exhaustive_cap
            ),
            maxlen: plan.maxlen,
            alphabet: J::A(alphabet.iter().map(|o| o.to_json()).collect()),
            swarm_runs: if enabled("swarm") { plan.swarm_runs } else { 0 },
            f_groups,
            probe32: probe32_stats,
        };
        let mut j = evidence::evidence_json(&total, &meta);
        let mut side_violations: Option<u64> = None;
        if let Some(side) = &a.side_evidence {
            // summary of the reduced pass made with the debug-assertions build just before
            if let Ok(text) = std::fs::read_to_string(side) {
                if let Ok(sj) = json::parse(&text) {
                    if let (J::O(top), Some(cov)) = (&mut j, sj.get("coverage")) {
                        for (k, v) in top.iter_mut() {
                            if k == "coverage" {
                                if let J::O(c) = v {
                                    side_violations = sj.get("violations").and_then(|x| x.as_u64());
                                    let pick = |name: &str| cov.get(name).cloned().unwrap_or(J::Null);
                                    c.push((
                                        "debug_assertions_pass".to_string(),
                                        J::obj(vec![
                                            ("build", J::s("profile dbgassert: release optimisation + debug-assertions + overflow-checks in every crate, /repo included")),
                                            ("evaluations", pick("evaluations")),
                                            ("simulated_runs", pick("simulated_runs")),
                                            ("derivative_calls", pick("derivative_calls")),
                                            ("faults", cov.get("faults").and_then(|f| f.get("derivative_errors_injected")).cloned().unwrap_or(J::Null)),
                                            ("builder_chains", cov.get("builder_half").and_then(|f| f.get("chains_enumerated")).cloned().unwrap_or(J::Null)),
                                            ("violations", sj.get("violations").cloned().unwrap_or(J::Null)),
                                            ("wall_s", sj.get("wall_s").cloned().unwrap_or(J::Null)),
                                        ]),
                                    ));
                                }
                            }
                        }
                    }
                }
            }
        }
        if let (J::O(top), Some(sv)) = (&mut j, side_violations) {
            // the verdict of the check is that of both passes
            for (k, v) in top.iter_mut() {
                if k == "violations" {
                    *v = J::U(reported + sv);
                }
            }
        }
        if let Some(dir) = std::path::Path::new(p).parent() {
            let _ = std::fs::create_dir_all(dir);
        }
        if let Err(e) = std::fs::write(p, j.to_string_pretty()) {
            eprintln!("HARNESS-ERROR: cannot write evidence {}: {}", p, e);
            return 2;
        }
    }
    for p in PROBE_NAMES {
        if only.is_none() && total.probes.get(p).copied().unwrap_or(0) == 0 {
            println!("warning: reach probe '{}' stayed at zero", p);
        }
    }
    println!(
        "summary: {} simulated runs + {} builder chains, {} derivative calls, {} faults fired, {} distinct non-trivial fingerprints, {} distinct fault sites, {:.1}s",
        total.runs, total.chains, total.deriv_calls, total.faults_fired, total.fingerprints.len(), total.sites.len(), wall
    );
    if reported > 0 {
        for e in &harness {
            eprintln!("warning (harness): {}", e);
        }
        return 1;
    }
    if !harness.is_empty() {
        for e in harness.iter().take(20) {
            eprintln!("HARNESS-ERROR: {}", e);
        }
        return 2;
    }
    if lite {
        println!("reduced pass (debug-assertions build): no violation");
    } else {
        println!("full pass (release build): no violation");
    }
    0
}

static LAST_PANIC: Mutex<String> = Mutex::new(String::new());

// ---------------------------------------------------------------------------------------------
// process aborts inside the code under test (a failed allocation aborts, it does not unwind)

extern "C" {
    fn signal(signum: i32, handler: usize) -> usize;
    fn _exit(code: i32) -> !;
}

/// (replay directory, seed, path of the file being replayed if this is a replay)
static ABORT_CTX: Mutex<(String, u64, Option<String>)> = Mutex::new((String::new(), 0, None));

extern "C" fn on_abort(_sig: i32) {
    // The thread that aborted runs this. It is about to die anyway, so the usual rules for signal
    // handlers are relaxed: small allocations and a write to stdout are attempted, and whatever
    // happens the process ends here.
    let (dir, seed, replaying) = ABORT_CTX.try_lock().map(|g| g.clone()).unwrap_or((String::from("replays"), 0, None));
    let (inside, fired, run) = run::watch::current();
    let (spec, budgets, phase) = match (inside, run) {
        (true, Some((s, b))) => (Some(s), b, if fired { "after-fault" } else { "no-fault" }),
        _ => match explore_b::current_chain_spec() {
            Some(s) => (Some(s), vec![run::Budget { max_calls: 2_000, max_polls: 2_000 }], "builder"),
            None => (None, Vec::new(), "unknown"),
        },
    };
    if let Some(path) = replaying {
        if phase == "no-fault" {
            println!("the run aborted the process; no fault had fired in it, which C06 does not speak about");
            unsafe { _exit(2) }
        }
        println!("REPRODUCED class=abort: the run aborted the process (allocation failure or abort() inside the crate)");
        println!("VIOLATION property=C06 replay={}", path);
        unsafe { _exit(1) }
    }
    let n = flush_pending(&dir, seed);
    match spec {
        Some(spec) => {
            let _ = std::fs::create_dir_all(&dir);
            let path = format!("{}/C06-{}-abort-{}.json", dir.trim_end_matches('/'), seed, phase);
            let j = J::obj(vec![
                ("property", J::s("C06")),
                ("class", J::s("abort")),
                ("detail", J::s("this run aborted the whole process (a failed allocation or an abort() inside the crate); it cannot be caught, minimised or continued")),
                ("seed", J::U(seed)),
                ("found_with_build", J::s(if cfg!(debug_assertions) { "dbgassert" } else { "release" })),
                ("fault_had_fired", J::Bool(phase == "after-fault")),
                ("phase", J::s(phase)),
                ("spec", spec.to_json()),
                ("budgets", run::budgets_to_json(&budgets)),
            ]);
            let _ = std::fs::write(&path, j.to_string_pretty());
            if phase == "no-fault" {
                eprintln!("HARNESS-ERROR: a run aborted the process (allocation failure?) although no fault had fired in the instance being driven: outside C06, and the exploration cannot continue; run written to {}", path);
                unsafe { _exit(if n > 0 { 1 } else { 2 }) }
            }
            println!(
                "violation class=abort : {} the crate aborted the process (a panic would at least unwind)",
                if phase == "builder" { "during a builder call" } else { "after the derivative of the instance being driven had returned Err," }
            );
            println!("  run: {}", spec.to_json().to_string_compact());
            println!("VIOLATION property=C06 replay={}", path);
            unsafe { _exit(1) }
        }
        None => {
            eprintln!("HARNESS-ERROR: the process aborted outside any simulated run");
            unsafe { _exit(if n > 0 { 1 } else { 2 }) }
        }
    }
}

fn install_abort_handler(a: &Args) {
    if let Ok(mut g) = ABORT_CTX.lock() {
        *g = (a.replays.clone(), a.seed, if a.cmd == "replay" { a.file.clone() } else { None });
    }
    unsafe {
        signal(6, on_abort as usize);
    }
}

fn main() {
    // panics inside simulated calls are caught and judged by the simulator; keep stderr quiet,
    // but remember the last one so that a panic of the harness itself can be reported
    std::panic::set_hook(Box::new(|info| {
        if let Ok(mut g) = LAST_PANIC.lock() {
            *g = info.to_string();
        }
    }));
    let a = match parse_args() {
        Ok(a) => a,
        Err(e) => {
            eprintln!("{}", e);
            std::process::exit(2);
        }
    };
    install_abort_handler(&a);
    let code = std::panic::catch_unwind(std::panic::AssertUnwindSafe(|| match a.cmd.as_str() {
        "check" => cmd_check(&a),
        "replay" => cmd_replay(&a),
        "fingerprints" => cmd_fingerprints(&a),
        "selftest" => cmd_selftest(&a),
        _ => {
            eprintln!("unknown command {}", a.cmd);
            2
        }
    }));
    let code = match code {
        Ok(c) => c,
        Err(_) => {
            let msg = LAST_PANIC.lock().map(|g| g.clone()).unwrap_or_default();
            eprintln!("HARNESS-ERROR: the simulator itself panicked: {}", msg);
            2
        }
    };
    std::process::exit(code);
}
